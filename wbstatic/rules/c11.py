"""C11 — restart reproduces the uninterrupted run (structural clauses).

R11.1 nothing positional is taken from a directory listing (order taint).
R11.2 writer / reader / glob / index-parser of the per-iteration weight files agree.
R11.3 restart bookkeeping in run(): append-only K-list file covers each new point once; storage paths are set by
      list position before evaluation; weights are written and re-applied in K-list order.
R11.4 merging equivalent points never deletes an already-dumped (old) K-point, so list positions stay valid.
"""
from __future__ import annotations

import ast
from typing import Dict, List, Optional

from ..index import AnalysisError, call_name, norm, norm1, names_in, walk_no_nested
from ..taint import OrderTaint
from .common import (calls, enclosing, enclosing_all, fctx, fstring_pattern, in_body, is_name, method_calls, pmatch, same,
                     stmts, store_targets)

LEVEL = "other"
EXPLANATION = (
    "Order-taint dataflow (sources: glob/listdir/scandir/iterdir; sanitisers: sorted/np.sort/np.unique/set/max/min…; "
    "sinks: constant positional subscripts, next(iter()), unpacking, zip pairing) over every function of run_grid.py "
    "and grid/Kpoint.py (thorough: the whole package) decides the clause 'must not depend on the order in which the "
    "file system lists the restart files'. Writer/reader agreement of the restart file names is decided by abstracting "
    "the f-strings to patterns and constant-evaluating the index parser on the writer's pattern. CFG dominance rules "
    "decide that the append-only K-list file receives every new point exactly once, that storage paths are bound to "
    "list positions before evaluation, and that merging never deletes an already-dumped point. Not decided: numerical "
    "equality of restarted and uninterrupted results.")

RG = "wannierberri/run_grid.py"
KP = "wannierberri/grid/Kpoint.py"


_IDX: list = []


def _open_patterns(fi) -> List[tuple]:
    """(pattern, mode, call) for every open(os.path.join(dir, <fstring>), mode) in the function."""
    out = []
    from ..sem import Sem
    S = Sem(_IDX[0], fi) if _IDX and hasattr(fi, "module") else None
    for c in calls(fi.node, "open", suffix=False):
        if not c.args:
            continue
        a = c.args[0]
        if S is not None and isinstance(a, (ast.Call, ast.Name)) and not (isinstance(a, ast.Call) and call_name(a) == "os.path.join"):
            try:
                a = S.resolve(a, S.du.node_of_expr(c))
            except Exception:
                pass
        mode = c.args[1].value if len(c.args) > 1 and isinstance(c.args[1], ast.Constant) else "r"
        if isinstance(a, ast.Call) and call_name(a) == "os.path.join" and a.args:
            pat = fstring_pattern(a.args[-1])
            if pat is not None:
                out.append((pat, mode, c))
    return out


def _eval_str_chain(e: ast.AST, var: str, value: str):
    """Constant-evaluate a chain of pure str operations applied to the name `var` bound to `value`
    (split / rsplit / strip / subscript / slice / int / os.path.basename / os.path.splitext)."""
    if isinstance(e, ast.Name) and e.id == var:
        return value
    if isinstance(e, ast.Constant):
        return e.value
    if isinstance(e, ast.UnaryOp) and isinstance(e.op, ast.USub):
        return -_eval_str_chain(e.operand, var, value)
    if isinstance(e, ast.Subscript):
        base = _eval_str_chain(e.value, var, value)
        sl = e.slice
        if isinstance(sl, ast.Slice):
            lo = _eval_str_chain(sl.lower, var, value) if sl.lower is not None else None
            hi = _eval_str_chain(sl.upper, var, value) if sl.upper is not None else None
            return base[lo:hi]
        return base[_eval_str_chain(sl, var, value)]
    if isinstance(e, ast.Call):
        cn = call_name(e)
        args = [_eval_str_chain(a, var, value) for a in e.args]
        if cn == "int":
            return int(args[0])
        if cn == "len":
            return len(args[0])
        if cn in ("os.path.basename",):
            return args[0].rsplit("/", 1)[-1]
        if cn in ("os.path.split",):
            parts = args[0].rsplit("/", 1)
            return (parts[0], parts[1]) if len(parts) == 2 else ("", parts[0])
        if cn in ("os.path.splitext",):
            b = args[0]
            i = b.rfind(".")
            return (b[:i], b[i:]) if i > b.rfind("/") + 1 else (b, "")
        if isinstance(e.func, ast.Attribute) and e.func.attr in ("split", "rsplit", "strip", "lstrip", "rstrip",
                                                                   "removeprefix", "removesuffix", "replace"):
            recv = _eval_str_chain(e.func.value, var, value)
            return getattr(recv, e.func.attr)(*args)
    raise AnalysisError(f"index parser uses an operation outside the modelled str subset: {norm1(e)}")


def run(ctx) -> None:
    idx = ctx.index
    _IDX[:] = [idx]
    ctx.assume("glob / os.listdir / scandir / iterdir return entries in arbitrary order (documented)")

    # ---------------------------------------------------------------- R11.1
    r1 = ctx.rule("R11.1", "nothing positional is taken from a directory listing (restart files)")
    scope = [RG, KP]
    funcs = [f for f in idx.all_functions() if f.module.relpath in scope]
    for m in scope:
        idx.module(m)
    n_src = 0
    from ..taint import returning_listing_order
    wrappers = returning_listing_order(idx, scope)
    if wrappers:
        r1.note(f"functions returning a sequence in directory-listing order (their calls count as listings): {sorted(wrappers)}")
    for f in funcs:
        cfg, du, pm = fctx(f)
        ot = OrderTaint(f.node, du, extra_sources=wrappers)
        if not ot.sources:
            continue
        for s in ot.sources:
            n_src += 1
            r1.instance(f"{f.short}: {norm1(s, 70)}")
        sinks = ot.sinks()
        if not sinks:
            r1.ok(f"{f.short}: listing results are only used order-insensitively")
        for e, why in sinks:
            st = enclosing(pm, e, ast.stmt) if not isinstance(e, ast.stmt) else e
            r1.violation(f, st, f"`{norm1(e, 80)}`: {why}; a restart picks a different iteration / file depending on "
                         f"how the file system happens to list the restart directory")
    if ctx.thorough:
        for f in idx.all_functions():
            if f.module.relpath in scope:
                continue
            if not any(isinstance(n, ast.Call) and OrderTaint.is_listing_call(n) for n in ast.walk(f.node)):
                continue
            cfg, du, pm = fctx(f)
            ot = OrderTaint(f.node, du)
            for s in ot.sources:
                sk = ot.sinks()
                r1.observe(f"{f.short}: listing `{norm1(s, 60)}` outside the restart files "
                           f"({'order-insensitive' if not sk else 'ORDER-DEPENDENT: ' + '; '.join(norm1(e, 50) for e, _ in sk)})")

    # ---------------------------------------------------------------- R11.2
    r2 = ctx.rule("R11.2", "weight-file names: writer, reader, glob and index parser agree", min_instances=3)
    from ..sem import inline_private_helpers
    wf = inline_private_helpers(idx, idx.function(RG, "write_factors"))
    rf = inline_private_helpers(idx, idx.function(RG, "read_factors"))
    wpat = [p for p in _open_patterns(wf) if "w" in p[1] or "a" in p[1]]
    rpat = [p for p in _open_patterns(rf) if "r" in p[1]]
    if len(wpat) != 1 or len(rpat) != 1:
        raise AnalysisError("write_factors/read_factors: expected one open(os.path.join(dir, f'...')) each")
    r2.instance(f"{wf.short}: {wpat[0][0]}")
    r2.instance(f"{rf.short}: {rpat[0][0]}")
    r2.check(wpat[0][0] == rpat[0][0], f"reader opens the writer's pattern {wpat[0][0]!r}", rf, rpat[0][2],
             f"read_factors opens {rpat[0][0]!r} but write_factors writes {wpat[0][0]!r}")
    import re
    pat = wpat[0][0]
    fields = re.findall(r"\{[^}]*\}", pat)
    if len(fields) != 1:
        raise AnalysisError(f"weight-file pattern has {len(fields)} fields, expected 1: {pat}")
    globpat_expected = pat.replace(fields[0], "*")
    from ..sem import Sem as _Sem
    # the listing and the index parser may live in read_factors or in a function of the same module it calls
    rf0 = idx.function(RG, "read_factors")
    cand_fs = [rf]
    seen_f = {rf0.name}
    work_f = [rf0]
    while work_f:
        g0 = work_f.pop()
        for c_ in ast.walk(g0.node):
            if isinstance(c_, ast.Call) and isinstance(c_.func, ast.Name) and c_.func.id in rf0.module.functions and c_.func.id not in seen_f:
                seen_f.add(c_.func.id)
                cand_fs.append(rf0.module.functions[c_.func.id])
                work_f.append(rf0.module.functions[c_.func.id])
    n_glob = 0
    parser = None
    PSem = None
    for gf in cand_fs:
        RS = _Sem(idx, gf)
        for g in calls(gf.node, "glob.glob", suffix=False):
            n_glob += 1
            r2.instance(f"{gf.short}: {norm1(g, 70)}")
            a = g.args[0]
            if not (isinstance(a, ast.Call) and call_name(a) == "os.path.join"):
                a = RS.resolve(a, RS.du.node_of_expr(g))
            last = a.args[-1] if isinstance(a, ast.Call) and call_name(a) == "os.path.join" else None
            if last is not None:
                last = RS.resolve(last, RS.du.node_of_expr(g))
            gp = fstring_pattern(last) if last is not None else None
            r2.check(gp == globpat_expected, f"glob pattern {gp!r} is the writer's pattern with the index wildcarded",
                     gf, g, f"glob pattern {gp!r} does not match the files written as {pat!r} (expected {globpat_expected!r})")
        # the parser: [int(<chain on f>) for f in files]
        for lc in ast.walk(gf.node):
            if isinstance(lc, ast.ListComp) and isinstance(lc.elt, ast.Call) and call_name(lc.elt) == "int" \
                    and isinstance(lc.generators[0].target, ast.Name):
                parser, PSem = lc, RS
    if n_glob and parser is None:
        raise AnalysisError("read_factors: index parser `[int(...) for f in files]` not found")
    if parser is not None:
        var = parser.generators[0].target.id
        PSem.keep_names = {var}
        st_p = enclosing(PSem.pm, parser, ast.stmt)
        elt_r = PSem._res_comp(parser.elt, PSem.cfg.node(st_p), 8, set(), True, {var})
        PSem.keep_names = set()
        spec = fields[0][1:-1]
        fmt = "{" + spec + "}"
        bad = None
        n = 0
        for d in ("_tmp_wb", "a-b.c", "/x.y-z/run-3.d", "."):
            for i in (0, 7, 10, 123, 12345678):
                sample = d + "/" + pat.replace(fields[0], fmt.format(i))
                n += 1
                try:
                    got = _eval_str_chain(elt_r, var, sample)
                except (ValueError, IndexError) as ex:
                    got = f"{type(ex).__name__}"
                if got != i:
                    bad = (sample, i, got)
        r2.check(bad is None, f"index parser inverts the writer's pattern on {n} symbolic samples (any directory name)",
                 rf, parser, f"index parser `{norm1(parser.elt)}` applied to {bad[0]!r} gives {bad[2]!r}, "
                 f"the writer encoded {bad[1]}" if bad else "")
    # K-point storage path
    sp = idx.function(RG, "get_Kpoint_storage_path")
    SPS = _Sem(idx, sp)
    joins = calls(sp.node, "os.path.join", suffix=False)
    r2.instance(f"{sp.short}: {[norm1(c_, 60) for c_ in joins]}")
    ikp = sp.node.args.args[-1].arg
    okname = False
    if len(joins) == 1 and joins[0].args:
        last = SPS.resolve(joins[0].args[-1], SPS.du.node_of_expr(joins[0]))
        if isinstance(last, ast.JoinedStr):
            fs = [n for n in last.values if isinstance(n, ast.FormattedValue)]
            okname = len(fs) == 1 and is_name(fs[0].value, ikp)
        elif isinstance(last, ast.Call) and isinstance(last.func, ast.Attribute) and last.func.attr == "format" and isinstance(last.func.value, ast.Constant) \
                and isinstance(last.func.value.value, str):
            okname = last.func.value.value.count("{") == 1 and len(last.args) == 1 and is_name(last.args[0], ikp) and not last.keywords
        elif isinstance(last, ast.BinOp) and isinstance(last.op, ast.Mod) and isinstance(last.left, ast.Constant):
            okname = str(last.left.value).count("%") == 1 and (is_name(last.right, ikp) or (isinstance(last.right, ast.Tuple) and len(last.right.elts) == 1 and is_name(last.right.elts[0], ikp)))
    r2.check(okname, "per-K file name is a function of the K-point index only",
             sp, sp.node.body[-1], "per-K result file name does not encode the K-point index: two K-points share a file")

    # ---------------------------------------------------------------- R11.3
    r3 = ctx.rule("R11.3", "restart bookkeeping in run()", min_instances=4)
    runf = inline_private_helpers(idx, idx.function(RG, "run"))
    cfg, du, pm = fctx(runf)
    RunS = _Sem(idx, runf)
    # main iteration loop = the for loop containing the call to process(
    pcs = calls(runf.node, "process", suffix=False)
    if len(pcs) != 1:
        raise AnalysisError("run(): expected one call to process()")
    main = enclosing(pm, pcs[0], ast.For)
    if main is None:
        raise AnalysisError("run(): process() is not called inside the iteration loop")
    # (a) storage paths bound by position before evaluation
    sps = method_calls(main, "set_storage_path")
    if len(sps) != 1:
        raise AnalysisError("run(): expected one set_storage_path call in the iteration loop")
    c = sps[0]
    r3.instance(f"{runf.short}: {norm1(c, 90)}")
    fl = enclosing(pm, c, ast.For)
    ivar = fl.target.id if fl is not None and isinstance(fl.target, ast.Name) else (
        fl.target.elts[0].id if fl is not None and isinstance(fl.target, ast.Tuple) and isinstance(fl.target.elts[0], ast.Name) and isinstance(fl.iter, ast.Call)
        and call_name(fl.iter) == "enumerate" else None)
    recv = c.func.value
    if not isinstance(recv, ast.Subscript):
        recv = RunS.simplify(RunS.resolve(recv, RunS.du.node_of_expr(c)), RunS.du.node_of_expr(c))
    inner = c.args[0] if c.args else None
    ikarg = None
    if isinstance(inner, ast.Call) and call_name(inner) == "get_Kpoint_storage_path":
        for k in inner.keywords:
            if k.arg == ikp:
                ikarg = k.value
        if ikarg is None and len(inner.args) >= 2:
            ikarg = inner.args[1]
    okpos = ivar is not None and isinstance(recv, ast.Subscript) and is_name(recv.slice, ivar) and ikarg is not None \
        and is_name(ikarg, ivar) and fl is not main
    r3.check(okpos, "K-point at list position i gets the file of index i", runf, c,
             f"storage path index `{norm1(ikarg) if ikarg is not None else None}` differs from the list position "
             f"`{norm1(recv)}`: two K-points can share / swap result files after a restart")
    if fl is not None and fl is not main:
        it = fl.iter
        okr = isinstance(it, ast.Call) and call_name(it) == "range" and len(it.args) == 2 and \
            norm(it.args[1]).replace(" ", "") in ("len(K_list)",) and isinstance(it.args[0], ast.Name)
        if not okr and isinstance(it, ast.Call) and call_name(it) == "enumerate" and it.args:
            m_ = pmatch(it, "enumerate(K_list[S_:], start=S_)", {"S_"}) or pmatch(it, "enumerate(K_list[S_:], S_)", {"S_"})
            okr = bool(m_) and m_[0][0] is it and m_[0][1]["S_"].isidentifier()
        r3.check(okr, "paths are assigned to all not-yet-assigned points range(nk_prev, len(K_list))", runf, fl,
                 f"storage paths assigned over `{norm1(it)}`, not over every new K-point")
        r3.check(cfg.dominates(cfg.node(fl), cfg.node(enclosing(pm, pcs[0], ast.stmt))),
                 "storage paths are set before the K-points are evaluated/dumped", runf, fl,
                 "process() (which dumps results) can run before the storage paths are set")
    # (b) append-only K-list file
    dumps = [d for d in calls(main, "pickle.dump", suffix=False)]
    if len(dumps) != 1:
        raise AnalysisError("run(): expected one pickle.dump of the K-list in the iteration loop")
    dmp = dumps[0]
    r3.instance(f"{runf.short}: {norm1(dmp, 80)}")
    dl = enclosing(pm, dmp, ast.For)
    opens = [o for o in calls(main, "open", suffix=False) if len(o.args) > 1 and isinstance(o.args[1], ast.Constant)]
    r3.check(any(o.args[1].value == "ab" for o in opens), "K-list file is opened in append mode", runf, opens[0] if opens else main,
             f"K-list file opened with mode {[o.args[1].value for o in opens]}: earlier K-points are lost on the next iteration")
    okslice = False
    start = stop = step = None
    if dl is not None and dl is not main and isinstance(dl.iter, ast.Call) and call_name(dl.iter) == "range" \
            and len(dl.iter.args) == 3 and isinstance(dl.target, ast.Name):
        start, stop, step = dl.iter.args
        sl = dmp.args[0]
        if isinstance(sl, ast.Subscript) and isinstance(sl.slice, ast.Slice) and sl.slice.lower is not None \
                and sl.slice.upper is not None:
            lo, hi = sl.slice.lower, sl.slice.upper
            okslice = is_name(lo, dl.target.id) and isinstance(hi, ast.BinOp) and isinstance(hi.op, ast.Add) and \
                {norm(hi.left), norm(hi.right)} == {dl.target.id, norm(step)}
    r3.check(okslice, "chunks K_list[i:i+step] for i in range(start, stop, step) tile [start, stop)", runf, dmp,
             "the chunks written to the K-list file do not tile the range of new points (points duplicated or skipped)")
    if start is not None:
        # start must be the 'already dumped' counter, which must be advanced to `stop` before the next dump
        sname, ename = norm(start), norm(stop)
        upd = [s for s in stmts(main) if isinstance(s, ast.Assign) and is_name(s.targets[0], sname)]
        okupd = bool(upd) and all(norm(u.value) == ename or RunS.rnorm(u.value, cfg.node(u)) == RunS.rnorm(stop, cfg.node(dl)) for u in upd)
        r3.check(okupd, f"`{sname}` is advanced to `{ename}` inside the loop", runf, upd[0] if upd else main,
                 f"`{sname}` (number of K-points already written) is not advanced to `{ename}`", stmt=f"{sname} update")
        if upd:
            dnode = cfg.node(enclosing(pm, dmp, ast.stmt))
            unodes = [cfg.node(u) for u in upd]
            hdr = cfg.node(main)
            # every path from the dump back to the loop header passes the update
            r3.check(not cfg.reachable(dnode, [hdr], avoiding=unodes + [cfg.node(dl)]) or
                     not _path_back(cfg, dnode, hdr, unodes, main),
                     "every path from one dump to the next passes the counter update", runf, upd[0],
                     f"the loop can reach the next dump without `{sname} = {ename}`: K-points are appended twice and a "
                     f"restart reads duplicates")
        # stop must be len(K_list) taken after process and with no K_list growth in between
        sdef = [s for s in stmts(main) if isinstance(s, ast.Assign) and is_name(s.targets[0], ename)]
        r3.check((len(sdef) == 1 and norm(sdef[0].value) == "len(K_list)") or ename.replace(" ", "") == "len(K_list)", f"`{ename}` is len(K_list)", runf,
                 sdef[0] if sdef else main, f"`{ename}` is not the current length of the K-point list")
    # (b2) initial value of the "already written" counter: everything loaded on restart, nothing on a fresh start
    if start is not None:
        sname = norm(start)
        inits = [s for s in stmts(runf.node) if isinstance(s, ast.Assign) and is_name(s.targets[0], sname) and not in_body(main.body, s)]
        rif = [s for s in stmts(runf.node) if isinstance(s, ast.If) and norm(s.test) == "restart" and any(in_body(s.body, x) or in_body(s.orelse, x) for x in inits)]
        if len(inits) != 2 or len(rif) != 1:
            raise AnalysisError(f"run(): expected `{sname}` to be initialised once in each arm of `if restart:`")
        for x in inits:
            r3.instance(f"{runf.short}: {norm1(x)}")
            if in_body(rif[0].body, x):
                r3.check(norm(x.value).replace(" ", "") == "len(K_list)", f"restart: all reloaded K-points count as already written", runf, x,
                         f"on restart `{sname}` starts at `{norm1(x.value)}` instead of len(K_list): the K-points read from the K-list file "
                         f"are appended to it again, so a second restart loads duplicates (weights no longer line up with the list)")
            else:
                r3.check(norm(x.value) == "0", "fresh start: nothing written yet", runf, x,
                         f"on a fresh start `{sname}` starts at `{norm1(x.value)}` instead of 0: the first K-points are never written")
    # (b3) all kinds of restart files are written under equivalent conditions
    impl = [s for s in stmts(runf.node) if isinstance(s, ast.If) and "dump_results" in norm(s.test)
            and any(isinstance(b, ast.Assign) and norm(b) == "allow_restart = True" for b in s.body)]
    r3.instance(f"{runf.short}: dump_results ⇒ allow_restart")
    okimpl = len(impl) == 1 and norm(impl[0].test) == "dump_results"
    r3.check(okimpl, "dump_results always implies allow_restart", runf, impl[0] if impl else runf.node,
             f"`allow_restart` is switched on only under `{norm1(impl[0].test) if impl else '?'}`; with dump_results=True outside that "
             f"condition the per-K results and weight files are written but the K-list file is not, and a restart fails")
    if impl:
        guards = []
        for c in calls(runf.node, "write_factors", suffix=False) + dumps:
            g = [norm(i.test) for i in enclosing_all(pm, c, ast.If) if "restart" in norm(i.test) and "allow_restart" in norm(i.test) or norm(i.test) in ("dump_results",)]
            guards.append((c, g))
            okg = any(t in ("allow_restart", "allow_restart or dump_results", "dump_results or allow_restart") for t in g)
            r3.check(okg, f"`{norm1(c, 50)}` is written whenever restart files are kept", runf, enclosing(pm, c, ast.stmt),
                     f"`{norm1(c, 60)}` is guarded by {g}: one kind of restart file is written under a different condition than the others")
        first = min((cfg.node(enclosing(pm, c, ast.stmt)) for c, _ in guards), default=None)
        r3.check(first is not None and all(cfg.dominates(cfg.node(impl[0]), cfg.node(enclosing(pm, c, ast.stmt))) for c, _ in guards),
                 "the implication is established before any restart file is written", runf, impl[0],
                 "a restart file can be written before `dump_results ⇒ allow_restart` is established")
    # (c) weights written and re-applied in K-list order
    wcalls = calls(runf.node, "write_factors", suffix=False)
    for w in wcalls:
        r3.instance(f"{runf.short}: {norm1(w, 80)}")
        fa = [k.value for k in w.keywords if k.arg == "factors"] or w.args[1:2]
        sl, _, _ = du.backward_slice(fa[0], du.node_of_expr(w))
        okw = any(isinstance(e, ast.Call) and call_name(e) in ("np.array", "numpy.array") and e.args and
                  isinstance(e.args[0], ast.ListComp) and norm(e.args[0].generators[0].iter) == "K_list"
                  and not e.args[0].generators[0].ifs for e in sl)
        r3.check(okw, "weights are saved in K-list order, one per K-point", runf, w,
                 "the saved weights are not `[K.factor for K in K_list]` (order/length differ from the K-list file)")
        ia = [k.value for k in w.keywords if k.arg == "iter"]
        inloop = in_body(main.body, w)
        if inloop and ia:
            r3.check(norm(ia[0]) in ("i_iter_global", "i_iter + start_iter", "start_iter + i_iter"),
                     "iteration number written is the global one (continues after a restart)", runf, w,
                     f"weights of iteration are filed under `{norm1(ia[0])}`, which restarts from 0 after a restart "
                     f"and overwrites earlier iterations")
    rcalls = calls(runf.node, "read_factors", suffix=False)
    if len(rcalls) != 1:
        raise AnalysisError("run(): expected one read_factors call in the restart branch")
    rc = rcalls[0]
    r3.instance(f"{runf.short}: {norm1(rc, 80)}")
    sfs = [c for c in method_calls(runf.node, "set_factor") if enclosing(pm, c, ast.For) is not None
           and not in_body(main.body, c)]
    okz = False
    for c in sfs:
        f2 = enclosing(pm, c, ast.For)
        z = [x for x in ast.walk(f2.iter) if isinstance(x, ast.Call) and call_name(x) == "zip"]
        if z and len(z[0].args) == 2 and norm(z[0].args[0]) == "K_list" and isinstance(z[0].args[1], ast.Name):
            okz = True
    r3.check(okz, "restart re-applies weight i to K-point i of the reloaded list", runf, sfs[0] if sfs else rc,
             "restart does not pair the reloaded K-points with the saved weights by list position")
    st = enclosing(pm, rc, ast.stmt)
    r3.check(isinstance(st, ast.Assign) and isinstance(st.targets[0], ast.Tuple) and
             norm(st.targets[0].elts[0]) == "start_iter", "restart continues the iteration numbering", runf, st,
             "the iteration index returned by read_factors is not used as start_iter")

    # ---------------------------------------------------------------- R11.4
    r4 = ctx.rule("R11.4", "merging never deletes an already-dumped K-point")
    ex = idx.function(KP, "exclude_equiv_points")
    ecfg, edu, epm = fctx(ex)
    apps = [c for c in method_calls(ex.node, "append") if isinstance(c.func.value, ast.Name)]
    dels = [s for s in stmts(ex.node) if isinstance(s, ast.Delete)]
    if len(apps) != 1 or len(dels) != 1:
        raise AnalysisError("exclude_equiv_points: expected one exclusion list append and one del")
    app = apps[0]
    r4.instance(f"{ex.short}: {norm1(app)}")
    j = app.args[0]
    # path conditions at the append: the pair is ordered (i < j) and not both indices are old (< n − new_points)
    from ..sem import Sem
    ES = Sem(idx, ex)
    ast_stmt = enclosing(epm, app, ast.stmt)
    conds = ES.conditions(ast_stmt, resolve=False)
    gt = [f"{'' if p_ else 'not '}({t_})" for t_, p_, _ in conds]
    jn = norm(j)
    absb0 = method_calls(ex.node, "absorb")
    iv = norm(absb0[0].func.value.slice) if absb0 and isinstance(absb0[0].func.value, ast.Subscript) else "i"
    kl_par = ex.params[0]
    npar = ex.params[1] if len(ex.params) > 1 else "new_points"

    def is_old_threshold(e: ast.AST) -> bool:
        txts = {norm(e)}
        try:
            for alt in ES.alternatives(e, ecfg.node(ast_stmt)):
                txts.add(norm(alt))
        except Exception:
            pass
        ok_forms = (f"n - {npar}", f"len({kl_par}) - {npar}", f"0 if {npar} is None else n - {npar}", f"0 if {npar} is None else len({kl_par}) - {npar}",
                    f"len({kl_par}) - len({kl_par})", "n - n")
        return any(t_ in ok_forms for t_ in txts)
    old_guard = False
    for t_, p_, _ in conds:
        if p_:
            continue
        e_ = ast.parse(t_, mode="eval").body
        if isinstance(e_, ast.Compare) and len(e_.ops) == 1 and isinstance(e_.ops[0], ast.Lt) and norm(e_.left) == jn and is_old_threshold(e_.comparators[0]):
            old_guard = True
        if isinstance(e_, ast.BoolOp) and isinstance(e_.op, ast.And) and len(e_.values) == 2 and all(
                isinstance(v, ast.Compare) and len(v.ops) == 1 and isinstance(v.ops[0], ast.Lt) and is_old_threshold(v.comparators[0]) for v in e_.values) \
                and {norm(v.left) for v in e_.values} == {iv, jn}:
            old_guard = True
    order_guard = any((t_ in (f"{iv} >= {jn}", f"{jn} <= {iv}") and p_ is False) or (t_ in (f"{iv} < {jn}", f"{jn} > {iv}") and p_ is True) for t_, p_, _ in conds)
    r4.check(old_guard and order_guard, "only a new point (index ≥ n − new_points, larger than its partner) is deleted",
             ex, enclosing(epm, app, ast.stmt),
             f"a K-point that may already be in the append-only K-list file can be deleted (guards on the path: {gt}); "
             f"list positions and result-file indices of all later points shift, and a restart mis-assigns weights")
    absb = method_calls(ex.node, "absorb")
    r4.check(len(absb) == 1 and same(absb[0].args[0].slice if isinstance(absb[0].args[0], ast.Subscript) else None, j)
             and ecfg.node(enclosing(epm, absb[0], ast.stmt)) in
             {ecfg.node(s) for s in enclosing(epm, app, ast.If).body} if enclosing(epm, app, ast.If) else False,
             "the survivor absorbs exactly the excluded point, in the same guarded block", ex, absb[0] if absb else app,
             "excluded point and absorbed point differ")


def _path_back(cfg, dnode, hdr, unodes, main) -> bool:
    """Is there a path dnode → loop header avoiding the update nodes that stays inside the loop?"""
    loop_nodes = {cfg.node_of[n] for n in ast.walk(main) if n in cfg.node_of}
    avoid = set(unodes)
    seen = {dnode}
    stack = [dnode]
    while stack:
        x = stack.pop()
        for y in cfg.g.successors(x):
            if y in avoid or y in seen or (y not in loop_nodes):
                continue
            if y == hdr:
                return True
            seen.add(y)
            stack.append(y)
    return False


from ..selftest import V  # noqa: E402

SELFTEST = [
    V("unsorted listing, last element taken (the original defect)", RG,
      "iter_indices = np.sort(np.array([int(f.split(\"-\")[-1].split(\".\")[0]) for f in files]))",
      "iter_indices = np.array([int(f.split(\"-\")[-1].split(\".\")[0]) for f in files])", "fire", "R11.1"),
    V("first listed file taken as the restart point", RG,
      "        iter_index = iter_indices[-1] + iter + 1\n",
      "        iter_index = int(files[0].split(\"-\")[-1].split(\".\")[0]) + iter + 1\n", "fire", "R11.1"),
    V("reader pads the index differently from the writer", RG,
      "        with open(os.path.join(file_Klist_path, f\"factors_iter-{iter:08d}.npy\"), 'rb') as f:",
      "        with open(os.path.join(file_Klist_path, f\"factors_iter-{iter:06d}.npy\"), 'rb') as f:", "fire", "R11.2"),
    V("glob pattern misses the files", RG, "\"factors_iter-*.npy\"", "\"factors-iter_*.npy\"", "fire", "R11.2"),
    V("index parser splits on the wrong separator", RG,
      "int(f.split(\"-\")[-1].split(\".\")[0])", "int(f.split(\"_\")[-1].split(\".\")[0])", "fire", "R11.2"),
    V("index parser breaks on dotted directory names", RG,
      "int(f.split(\"-\")[-1].split(\".\")[0])", "int(f.split(\".\")[0].split(\"-\")[-1])", "fire", "R11.2"),
    V("storage path uses the loop-relative index", RG,
      "get_Kpoint_storage_path(file_Klist_path=file_Klist_path, ik=ik))",
      "get_Kpoint_storage_path(file_Klist_path=file_Klist_path, ik=ik - nk_prev))", "fire", "R11.3"),
    V("K-list file rewritten instead of appended", RG, "fw = open(file_Klist, \"ab\")", "fw = open(file_Klist, \"wb\")",
      "fire", "R11.3"),
    V("dumped-counter never advanced", RG, "        nk_prev = nk\n", "        pass\n", "fire", "R11.3"),
    V("chunk width differs from the range step", RG, "pickle.dump(K_list[ink:ink + Klist_part], fw)",
      "pickle.dump(K_list[ink:ink + Klist_part + 1], fw)", "fire", "R11.3"),
    V("weights filed under the local iteration number", RG,
      "write_factors(file_Klist_path=file_Klist_path, factors=factors, iter=i_iter_global)",
      "write_factors(file_Klist_path=file_Klist_path, factors=factors, iter=i_iter)", "fire", "R11.3"),
    V("restart re-appends the whole K-list (seeded C11-m1)", RG, "        nk_prev = len(K_list)\n        start_iter, factors = read_factors",
      "        nk_prev = 0\n        start_iter, factors = read_factors", "fire", "R11.3"),
    V("allow_restart only when refining (seeded C11-m2)", RG, "    if dump_results:\n        allow_restart = True\n",
      "    if dump_results and adpt_num_iter > 0:\n        allow_restart = True\n", "fire", "R11.3"),
    V("old points may be merged away", KP,
      "                    if i < n - new_points and j < n - new_points:\n                        continue\n",
      "", "fire", "R11.4"),
    V("neutral: sorted() on the file list instead of np.sort", RG,
      "        files = glob.glob(os.path.join(file_Klist_path, \"factors_iter-*.npy\"))\n        iter_indices = np.sort(np.array([int(f.split(\"-\")[-1].split(\".\")[0]) for f in files]))",
      "        files = sorted(glob.glob(os.path.join(file_Klist_path, \"factors_iter-*.npy\")))\n        iter_indices = np.array([int(f.split(\"-\")[-1].split(\".\")[0]) for f in files])",
      "silent"),
    V("neutral: max() instead of sorted [-1]", RG, "iter_index = iter_indices[-1] + iter + 1",
      "iter_index = iter_indices.max() + iter + 1", "silent"),
    V("neutral: in-place sort of the list", RG,
      "        iter_indices = np.sort(np.array([int(f.split(\"-\")[-1].split(\".\")[0]) for f in files]))\n",
      "        files.sort()\n        iter_indices = np.array([int(f.split(\"-\")[-1].split(\".\")[0]) for f in files])\n",
      "silent"),
    V("neutral: parser via basename", RG, "int(f.split(\"-\")[-1].split(\".\")[0])",
      "int(os.path.basename(f).split(\"-\")[-1].split(\".\")[0])", "silent"),
]
