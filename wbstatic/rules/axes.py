"""Axis-order abstract evaluation shared by C07, C17 (and available to others).

An array is represented by the tuple of its axis *labels*; transpose / swapaxes / moveaxis permute the labels exactly as numpy does.
Integer and integer-tuple expressions (range, tuple/list displays and comprehensions, + − on ints and tuples, len, names bound in an
environment, `X.ndim`) are folded by `fold_int_tuple`.  Nothing of the analysed program is executed."""
from __future__ import annotations

import ast
from typing import Callable, Dict, Optional, Tuple

from ..index import AnalysisError, call_name, norm, norm1


def fold_int_tuple(e: ast.AST, env: Dict[str, object]):
    """Constant-fold integer / tuple-of-integer expressions.  `env` maps names *and normalised expression texts* (e.g.
    'self.transpose_axes') to ints / tuples; '__ndim__' is the value of any `X.ndim` / `len(X.shape)` / `np.ndim(X)`."""
    t = norm(e)
    if t in env:
        return env[t]
    if isinstance(e, ast.Constant) and isinstance(e.value, int) and not isinstance(e.value, bool):
        return e.value
    if isinstance(e, ast.Name):
        raise AnalysisError(f"unknown name in permutation expression: {e.id}")
    if isinstance(e, ast.Attribute) and e.attr == "ndim" and "__ndim__" in env:
        return env["__ndim__"]
    if isinstance(e, (ast.Tuple, ast.List)):
        out = []
        for x in e.elts:
            if isinstance(x, ast.Starred):
                out += list(fold_int_tuple(x.value, env))
            else:
                out.append(fold_int_tuple(x, env))
        return tuple(out)
    if isinstance(e, ast.BinOp) and isinstance(e.op, (ast.Add, ast.Sub, ast.Mult, ast.Mod, ast.FloorDiv)):
        a, b = fold_int_tuple(e.left, env), fold_int_tuple(e.right, env)
        if isinstance(e.op, ast.Add):
            return a + b
        if isinstance(e.op, ast.Sub):
            return a - b
        if isinstance(e.op, ast.Mult):
            return a * b
        if isinstance(e.op, ast.Mod):
            return a % b
        return a // b
    if isinstance(e, ast.UnaryOp) and isinstance(e.op, ast.USub):
        return -fold_int_tuple(e.operand, env)
    if isinstance(e, (ast.GeneratorExp, ast.ListComp)) and not any(g.ifs for g in e.generators):
        def rec(gi: int, env2):
            if gi == len(e.generators):
                return [fold_int_tuple(e.elt, env2)]
            g = e.generators[gi]
            out = []
            for v in fold_int_tuple(g.iter, env2):
                if isinstance(g.target, ast.Name):
                    out += rec(gi + 1, {**env2, g.target.id: v})
                elif isinstance(g.target, ast.Tuple) and all(isinstance(x, ast.Name) for x in g.target.elts) and isinstance(v, tuple) and len(v) == len(g.target.elts):
                    out += rec(gi + 1, {**env2, **{x.id: y for x, y in zip(g.target.elts, v)}})
                else:
                    raise AnalysisError(f"comprehension target outside the subset: {norm1(g.target)}")
            return out
        return tuple(rec(0, env))
    if isinstance(e, ast.Subscript) and isinstance(e.slice, ast.Slice):
        base = fold_int_tuple(e.value, env)
        lo, hi, st = (None if x is None else fold_int_tuple(x, env) for x in (e.slice.lower, e.slice.upper, e.slice.step))
        return tuple(base)[slice(lo, hi, st)]
    if isinstance(e, ast.Subscript):
        base = fold_int_tuple(e.value, env)
        return tuple(base)[fold_int_tuple(e.slice, env)]
    if isinstance(e, ast.Call):
        cn = call_name(e)
        if cn in ("len",) and len(e.args) == 1:
            a0 = e.args[0]
            if isinstance(a0, ast.Attribute) and a0.attr == "shape" and "__ndim__" in env:
                return env["__ndim__"]
            return len(fold_int_tuple(a0, env))
        if cn in ("np.ndim", "numpy.ndim") and "__ndim__" in env:
            return env["__ndim__"]
        args = [fold_int_tuple(a, env) for a in e.args]
        if cn == "range":
            return tuple(range(*args))
        if cn in ("tuple", "list", "np.array", "np.asarray"):
            return tuple(args[0])
        if cn == "reversed":
            return tuple(reversed(args[0]))
        if cn == "enumerate" and len(args) == 1:
            return tuple(enumerate(args[0]))
        if cn == "zip":
            return tuple(zip(*args))
        if cn == "sorted" and len(args) == 1 and not e.keywords:
            return tuple(sorted(args[0]))
    raise AnalysisError(f"permutation expression outside the integer-tuple subset: {norm1(e)}")


def _moveaxis(labels: Tuple, src, dst) -> Tuple:
    nd = len(labels)
    src = [src] if isinstance(src, int) else list(src)
    dst = [dst] if isinstance(dst, int) else list(dst)
    if len(src) != len(dst):
        return ("!moveaxis-length-mismatch",)
    src = [s % nd for s in src]
    dst = [d % nd for d in dst]
    if len(set(src)) != len(src) or len(set(dst)) != len(dst):
        return ("!moveaxis-repeated-axis",)
    order = [n for n in range(nd) if n not in src]
    for d, s_ in sorted(zip(dst, src)):
        order.insert(d, s_)
    return tuple(labels[j] for j in order)


def apply_reorder(e: ast.AST, base: str, axes: Tuple, env: Dict[str, object],
                  opaque: Optional[Callable[[ast.Call, Tuple], Optional[Tuple]]] = None) -> Optional[Tuple]:
    """Axis labels of expression `e` built from the array named `base` (labels `axes`) by transpose / np.transpose / .T / np.moveaxis /
    np.swapaxes / .swapaxes; `opaque(call, labels_of_first_argument)` may give the labels of any other call (e.g. a function that keeps
    the axis order).  None if e is not such an expression."""
    if isinstance(e, ast.Name):
        return tuple(axes) if e.id == base else None
    if isinstance(e, ast.Attribute) and e.attr == "T":
        inner = apply_reorder(e.value, base, axes, env, opaque)
        return None if inner is None else tuple(reversed(inner))
    if isinstance(e, ast.Call):
        cn = call_name(e)
        if isinstance(e.func, ast.Attribute) and e.func.attr in ("transpose", "swapaxes") and cn not in ("np.transpose", "np.swapaxes", "numpy.transpose", "numpy.swapaxes"):
            inner = apply_reorder(e.func.value, base, axes, env, opaque)
            args = list(e.args)
        elif cn in ("np.transpose", "np.moveaxis", "np.swapaxes", "numpy.transpose", "numpy.moveaxis", "numpy.swapaxes") and e.args:
            inner = apply_reorder(e.args[0], base, axes, env, opaque)
            args = list(e.args[1:]) + [k.value for k in e.keywords if k.arg in ("axes", "source", "destination", "axis1", "axis2")]
        else:
            if opaque is not None and e.args:
                a0 = apply_reorder(e.args[0], base, axes, env, opaque)
                if a0 is not None:
                    return opaque(e, a0)
            return None
        if inner is None:
            return None
        kind = e.func.attr if isinstance(e.func, ast.Attribute) else cn.split(".")[-1]
        nd = len(inner)
        if kind == "transpose":
            if not args:
                return tuple(reversed(inner))
            perm = fold_int_tuple(args[0] if len(args) == 1 else ast.Tuple(elts=args, ctx=ast.Load()), env)
            if isinstance(perm, int):
                perm = (perm,)
            if sorted(p % nd for p in perm) != list(range(nd)):
                return ("!not-a-permutation", perm)      # numpy raises here: never equal to an expected axis order
            return tuple(inner[j % nd] for j in perm)
        if kind == "swapaxes":
            a, b = (fold_int_tuple(x, env) % nd for x in args[:2])
            lst = list(inner)
            lst[a], lst[b] = lst[b], lst[a]
            return tuple(lst)
        if kind == "moveaxis":
            src, dst = (fold_int_tuple(x, env) for x in args[:2])
            return _moveaxis(inner, src, dst)
    return None
