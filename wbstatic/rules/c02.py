"""C02 — all Fourier back ends give the same k-space matrices (sibling agreement; structural clauses).

R02.1 back-end table: sign of the exponent and net normalisation agree across fftw / numpy / explicit sum / k-list, and
      the Hermitisation is applied after every branch.
R02.2 wrapped R-vectors are accumulated on the FFT box (never assigned) and the box indices are R mod NKFFT.
R02.3 the K-shift phase is applied according to the CURRENT transform mode: every attribute that steers apply_expdK is
      re-assigned by every configuration path of set_fft_R_to_k.
R02.4 derivative factors: i·(R + τj − τi), applied `der` times before the transform; HH_K / corner Hamiltonians are Hermitised.
R02.5 q→R library wrappers agree in direction; forward transform is divided by the number of mesh points.
"""
from __future__ import annotations

import ast
from typing import Dict, List, Optional, Set

from ..index import AnalysisError, call_name, norm, norm1
from .common import calls, enclosing, enclosing_all, fctx, in_body, is_name, method_calls, stmts, store_targets

LEVEL = "other"
EXPLANATION = (
    "Cross-check of sibling implementations: for the four R→k branches and the two q→R wrappers the sign of the exponent "
    "(ifftn / fftn, FFTW_BACKWARD / FORWARD, sign of the 2πi literal) and the explicit normalisation are extracted from the "
    "AST and compared; the Hermitisation must post-dominate every branch; placement of R-blocks on the FFT box must be an "
    "accumulation because R is wrapped modulo the box. A small typestate rule decides that apply_expdK only branches on "
    "state that every configuration path of set_fft_R_to_k re-assigns (so a re-configured Rvectors object cannot use stale "
    "grid-shift phases). Not decided: numerical agreement to rounding. Trusted: numpy/pyFFTW inverse transforms carry 1/N.")

FF = "wannierberri/fourier/fft.py"
RV = "wannierberri/fourier/rvectors.py"
DKR = "wannierberri/data_K/data_K_R.py"


def _sign_of_2pi_i(e: ast.AST) -> Optional[int]:
    """+1 / −1 if the expression contains np.exp(±2j·π·…) ; None if no such literal."""
    for c in ast.walk(e):
        if isinstance(c, ast.Call) and call_name(c) in ("np.exp", "numpy.exp") and c.args:
            t = norm(c.args[0]).replace(" ", "")
            if t.startswith("-2j*np.pi") or t.startswith("-(2j") or t.startswith("-2.0j*np.pi"):
                return -1
            if t.startswith("2j*np.pi") or t.startswith("2.0j*np.pi"):
                return +1
    return None


def run(ctx) -> None:
    idx = ctx.index
    ctx.assume("np.fft.ifftn and a pyFFTW FFTW_BACKWARD plan called through its object (normalise_idft default) both apply "
               "exp(+2πi k·R/N) with a 1/N factor; np.fft.fftn / FFTW_FORWARD apply exp(−…) without a factor")
    cls = idx.cls(FF, "FFT_R_to_k")
    callf = cls.methods.get("__call__")
    trf = cls.methods.get("transform")
    ini = cls.methods.get("__init__")
    if callf is None or trf is None or ini is None:
        raise AnalysisError("FFT_R_to_k methods vanished")
    cfg, du, pm = fctx(callf)

    # ---------------------------------------------------------------- R02.1
    r1 = ctx.rule("R02.1", "R→k back ends agree in sign and net normalisation; Hermitisation after every branch", min_instances=4)
    signs: Dict[str, int] = {}
    tt = norm(trf.node).replace(" ", "")
    r1.instance(f"{trf.short}: numpy branch")
    signs["numpy"] = +1 if "np.fft.ifftn(AAA_K,axes=(0,1,2))" in tt else (-1 if "np.fft.fftn(" in tt else 0)
    r1.instance(f"{ini.short}: fftw plan")
    ti = norm(ini.node).replace(" ", "")
    signs["fftw"] = +1 if "direction='FFTW_BACKWARD'" in ti else (-1 if "direction='FFTW_FORWARD'" in ti else 0)
    for prop, key in (("exponent", "slow"), ("exponent_k_list", "slow_path")):
        f = cls.methods.get(prop)
        if f is None:
            raise AnalysisError(f"FFT_R_to_k.{prop} vanished")
        r1.instance(f"{f.short}")
        signs[key] = _sign_of_2pi_i(f.node) or 0
    r1.check(set(signs.values()) == {1}, f"all four back ends use exp(+2πi k·R): {signs}", f"{FF}:FFT_R_to_k", callf.node,
             f"the Fourier back ends disagree on the sign of the exponent {signs}: H(k) from one back end is H(−k) of another",
             stmt=f"signs {signs}")
    # normalisation: fft branch multiplies by prod(NKFFT) (undoing the 1/N of the inverse transforms); explicit sums have no factor
    tc = norm(callf.node).replace(" ", "")
    arms = [s for s in stmts(callf.node) if isinstance(s, ast.If) and "self.lib==" in norm(s.test).replace(" ", "")]
    if not arms:
        raise AnalysisError("FFT_R_to_k.__call__: branch on self.lib not found")
    top = arms[0]
    # walk the if/elif chain
    chain = []
    cur = top
    while True:
        chain.append((norm(cur.test), cur.body))
        if len(cur.orelse) == 1 and isinstance(cur.orelse[0], ast.If):
            cur = cur.orelse[0]
        else:
            chain.append(("else", cur.orelse))
            break
    names = [c[0].replace(" ", "") for c in chain]
    r1.check(names == ["self.lib=='slow'", "self.lib=='slow_path'", "else"], f"branches: {names}", callf, top,
             f"FFT_R_to_k.__call__ dispatches on {names}", stmt=f"dispatch {names}")
    fft_body = chain[-1][1]
    mults = [s for s in fft_body if isinstance(s, ast.AugAssign) and isinstance(s.op, ast.Mult) and norm(s.target) == "AAA_K"]
    r1.check(len(mults) == 1 and norm(mults[0].value).replace(" ", "") == "np.prod(self.NKFFT)" and
             any(isinstance(s, ast.Expr) and "self.transform(AAA_K)" in norm(s) for s in fft_body),
             "library branch: inverse transform × prod(NKFFT) = plain sum over R (net factor 1)", callf, mults[0] if mults else top,
             "the FFT branch does not multiply the inverse transform by prod(NKFFT): it differs from the explicit sums by a factor N")
    for cond, body in chain[:2]:
        bt = " ".join(norm(s) for s in body).replace(" ", "")
        r1.check("np.prod(self.NKFFT)" not in bt.replace("np.prod([self.exponent", "") and "/len(" not in bt,
                 f"explicit-sum branch `{cond}` carries no normalisation factor", callf, body[0],
                 f"the explicit branch `{cond}` applies a normalisation factor the FFT branch does not have")
    herm = [s for s in stmts(callf.node) if isinstance(s, ast.If) and norm(s.test) == "hermitian"]
    okh = len(herm) == 1 and herm[0] in callf.node.body and callf.node.body.index(herm[0]) > callf.node.body.index(top) \
        and "0.5*(AAA_K+AAA_K.swapaxes(*self.axes_hermitean).conj())" in norm(herm[0]).replace(" ", "")
    r1.check(okh, "Hermitisation follows the branch join (applies to every back end)", callf, herm[0] if herm else top,
             "the Hermitian symmetrisation is not applied after all back-end branches: some back ends return non-Hermitian H(k)")
    r1.check("self.axes_hermitean=(1,2)" in ti and "self.axes_hermitean=(3,4)" in ti, "Hermitian axes: (1,2) for k-lists, (3,4) on the FFT box", ini, ini.node,
             "the axes swapped by the Hermitisation do not match the array layout of the back end", stmt="axes_hermitean")
    r1.check("self.lib='slow_path'" in ti.replace('"', "'") and "ifk_listisnotNone:" in ti, "an explicit k-list always selects the k-list back end", ini, ini.node,
             "a k-list no longer forces the explicit k-list transform", stmt="k_list → slow_path")

    # ---------------------------------------------------------------- R02.2
    r2 = ctx.rule("R02.2", "R-blocks wrapped onto the FFT box are accumulated", min_instances=1)
    stores = []
    for s in ast.walk(callf.node):
        if isinstance(s, (ast.Assign, ast.AugAssign)):
            tg = s.targets[0] if isinstance(s, ast.Assign) else s.target
            if isinstance(tg, ast.Subscript) and norm(tg.value) == "AAA_K" and ("irvec" in norm(tg.slice) or "iRvec" in norm(tg.slice)):
                stores.append(s)
    if not stores:
        raise AnalysisError("FFT_R_to_k.__call__: placement of AAA_R on the FFT box not found")
    r2.check("self.iRvec=self.iRvec%self.NKFFT" in ti, "box index = R mod NKFFT (distinct R may share a box point)", ini, ini.node,
             "R-vectors are no longer wrapped modulo the FFT box", stmt="iRvec % NKFFT")
    for s in stores:
        r2.instance(f"{callf.short}: {norm1(s)}")
        ok = isinstance(s, ast.AugAssign) and isinstance(s.op, ast.Add) and not isinstance(s.target.slice, ast.Tuple) or \
            (isinstance(s, ast.AugAssign) and isinstance(s.op, ast.Add) and "tuple(" in norm(s.target.slice))
        fancy = isinstance((s.targets[0] if isinstance(s, ast.Assign) else s.target).slice, ast.Tuple)
        r2.check(isinstance(s, ast.AugAssign) and isinstance(s.op, ast.Add) and not fancy, "placement is `box[R mod N] += block` one R at a time", callf, s,
                 f"`{norm1(s)}` {'assigns' if isinstance(s, ast.Assign) else 'fancy-index-accumulates'} R-blocks onto the FFT box: R-vectors "
                 f"that wrap onto the same box point (gapped R sets, FFT grids smaller than the R range) overwrite each other — numpy "
                 f"fancy-index stores do not accumulate duplicates — so fftw/numpy differ from the explicit sum")

    # ---------------------------------------------------------------- R02.3
    r3 = ctx.rule("R02.3", "apply_expdK branches only on state that every configuration path re-assigns")
    rvc = idx.cls(RV, "Rvectors")
    setf = rvc.methods.get("set_fft_R_to_k")
    apf = rvc.methods.get("apply_expdK")
    if setf is None or apf is None:
        raise AnalysisError("Rvectors.set_fft_R_to_k / apply_expdK vanished")
    r3.instance(f"{apf.short} ⟷ {setf.short}")
    tops = [s for s in setf.node.body if isinstance(s, ast.If)]
    if len(tops) != 1:
        raise AnalysisError("set_fft_R_to_k: expected one top-level mode branch")

    def assigned(body) -> Set[str]:
        out = set()
        for s in body:
            for x in ast.walk(s):
                if isinstance(x, ast.Assign):
                    for t in x.targets:
                        if isinstance(t, ast.Attribute) and is_name(t.value, "self"):
                            out.add(t.attr)
        return out
    a1, a2 = assigned(tops[0].body), assigned(tops[0].orelse)
    after = assigned([s for s in setf.node.body if s is not tops[0]])
    always = (a1 & a2) | after
    r3.note(f"set_fft_R_to_k assigns on the k-list path {sorted(a1 | after)}, on the grid path {sorted(a2 | after)}; on every path {sorted(always)}")
    conds = [s.test for s in ast.walk(apf.node) if isinstance(s, ast.If)]
    for c in conds:
        read = {x.attr for x in ast.walk(c) if isinstance(x, ast.Attribute) and is_name(x.value, "self")}
        read |= {x.args[1].value for x in ast.walk(c) if isinstance(x, ast.Call) and call_name(x) in ("getattr", "hasattr") and len(x.args) >= 2
                 and is_name(x.args[0], "self") and isinstance(x.args[1], ast.Constant)}
        stale = sorted(read - always)
        r3.check(not stale, f"guard `{norm1(c)}` reads only state re-assigned on every configuration path", apf, c,
                 f"apply_expdK decides whether to apply the grid-shift phase from `{norm1(c)}`, but self.{stale[0] if stale else ''} is only "
                 f"assigned on one path of set_fft_R_to_k: after re-configuring the same Rvectors object from a shifted FFT grid to an "
                 f"explicit k-list the stale grid phases exp(2πi dK·R) are multiplied into the k-list transform")
    ta = norm(apf.node).replace(" ", "")
    r3.check("returnXX_R*self.expdK.reshape(shape)" in ta and "self.expdK=np.exp(2j*np.pi*self.iRvec.dot(self.dK))" in norm(setf.node).replace(" ", ""),
             "grid mode: X(R) · exp(+2πi dK·R)", apf, apf.node, "the K-shift phase is no longer exp(+2πi dK·R) multiplied into X(R)", stmt="expdK")

    # ---------------------------------------------------------------- R02.4
    r4 = ctx.rule("R02.4", "derivative factors and Hermitisation of the Hamiltonian", min_instances=3)
    dv = rvc.methods.get("derivative")
    rk = rvc.methods.get("R_to_k")
    r4.instance(dv.short)
    td = norm(dv.node).replace(" ", "")
    r4.check("return1j*XX_R.reshape(XX_R.shape+(1,))*self.cRvec_shifted.reshape(" in td, "∂/∂k ↦ multiplication by +i (R + τj − τi)", dv, dv.node,
             "the k-derivative is no longer multiplication of X(R) by +i·(R + τj − τi) (the sign must match exp(+ik·R))", stmt="derivative")
    r4.instance(rk.short)
    tk = norm(rk.node).replace(" ", "")
    r4.check("foriinrange(der):XX_R=self.derivative(XX_R)" in tk.replace("\n", "") and "returnself.fft_R_to_k(XX_R,hermitian=hermitian)" in tk,
             "R_to_k applies the derivative `der` times, then one transform", rk, rk.node,
             "R_to_k no longer applies `der` derivative factors before a single transform", stmt="R_to_k")
    dk = idx.cls(DKR, "Data_K_R")
    hh = dk.methods.get("HH_K")
    r4.instance(hh.short)
    r4.check("self.rvec.R_to_k(self.Ham_R, hermitian=True)" in norm(hh.node), "HH_K is Hermitised", hh, hh.node,
             "Data_K_R.HH_K is no longer transformed with hermitian=True", stmt="HH_K hermitian")
    for mname in ("E_K_corners_tetra", "E_K_corners_parallel"):
        m = dk.methods.get(mname)
        cs = [c for c in method_calls(m.node, "R_to_k")]
        r4.check(bool(cs) and all(any(k.arg == "hermitian" and norm(k.value) == "True" for k in c.keywords) for c in cs),
                 f"{mname}: corner Hamiltonians are Hermitised like HH_K", m, cs[0] if cs else m.node,
                 f"{mname} transforms the corner Hamiltonian without hermitian=True (its sibling HH_K uses it)")
    xb = dk.methods.get("Xbar")
    r4.check("hermitian=name in ['AA', 'SS', 'OO', 'rotAA']" in norm(xb.node), "Xbar Hermitises exactly the Hermitian operators", xb, xb.node,
             "the list of matrices Hermitised in Xbar changed", stmt="Xbar hermitian list")

    # ---------------------------------------------------------------- R02.5
    r5 = ctx.rule("R02.5", "q→R wrappers agree in direction; forward transform ÷ N", min_instances=2)
    fnp = idx.function(FF, "fft_np")
    fw = idx.function(FF, "fft_W")
    r5.instance(fnp.short)
    tn = norm(fnp.node).replace(" ", "").replace("\n", "")
    np_ok = "ifinverse:returnnp.fft.ifftn(inp,axes=axes)else:returnnp.fft.fftn(inp,axes=axes)" in tn
    r5.instance(fw.short)
    tw = norm(fw.node).replace(" ", "")
    w_ok = "direction='FFTW_BACKWARD'ifinverseelse'FFTW_FORWARD'" in tw
    r5.check(np_ok and w_ok, "both wrappers: inverse ⇒ backward (ifftn), otherwise forward (fftn)", fw, fw.node,
             f"fft_np and fft_W map `inverse` to different transform directions (numpy ok: {np_ok}, fftw ok: {w_ok}): real-space matrices "
             f"depend on the FFT library", stmt="direction")
    ex = idx.function(FF, "execute_fft")
    te = norm(ex.node).replace(" ", "")
    r5.check("returnfft_W(inp,axes,inverse=inverse,destroy=destroy)" in te and "returnfft_np(inp,axes,inverse=inverse)" in te,
             "execute_fft forwards `inverse` unchanged to both libraries", ex, ex.node, "execute_fft does not pass `inverse` identically to both libraries",
             stmt="execute_fft")
    q = rvc.methods.get("q_to_R")
    tq = norm(q.node).replace(" ", "")
    r5.check("execute_fft(AA_q_mp,axes=(0,1,2),fftlib=self.fftlib_q2R,destroy=False)/np.prod(self.mp_grid)" in tq and "AA_q_mp[k]=AA_q[i]" in tq,
             "q→R: mesh placement by integer coordinates, forward transform divided by the number of mesh points", q, q.node,
             "q_to_R is no longer (forward FFT)/N_mesh of the matrices placed at their mesh coordinates", stmt="q_to_R")


from ..selftest import V  # noqa: E402

SELFTEST = [
    V("stale grid-shift phase after re-configuration (seeded C02-m1)", RV,
      "        if self.fft_R_to_k.lib == \"slow_path\":\n            return XX_R", "        if getattr(self, 'expdK', None) is None:\n            return XX_R", "fire", "R02.3"),
    V("one-shot fancy-index placement (seeded C02-m2, simplified)", FF,
      "            for ir, irvec in enumerate(self.iRvec):\n                AAA_K[tuple(irvec)] += AAA_R[ir]",
      "            AAA_K[self.iRvec[:, 0], self.iRvec[:, 1], self.iRvec[:, 2]] = AAA_R", "fire", "R02.2"),
    V("fancy-index += does not accumulate duplicates either", FF,
      "            for ir, irvec in enumerate(self.iRvec):\n                AAA_K[tuple(irvec)] += AAA_R[ir]",
      "            AAA_K[self.iRvec[:, 0], self.iRvec[:, 1], self.iRvec[:, 2]] += AAA_R", "fire", "R02.2"),
    V("numpy back end uses the forward transform", FF, "AAA_K[...] = np.fft.ifftn(AAA_K, axes=(0, 1, 2))", "AAA_K[...] = np.fft.fftn(AAA_K, axes=(0, 1, 2))", "fire", "R02.1"),
    V("k-list exponent with the opposite sign", FF, "return np.exp(2j * np.pi * (self.k_list @ self.iRvec.T))", "return np.exp(-2j * np.pi * (self.k_list @ self.iRvec.T))",
      "fire", "R02.1"),
    V("Hermitisation only in the FFT branch", FF,
      "            self.transform(AAA_K)\n            AAA_K *= np.prod(self.NKFFT)\n\n        # TODO - think if fftlib transform of half of matrix makes sense\n        if hermitian:\n            AAA_K = 0.5 * (AAA_K + AAA_K.swapaxes(*self.axes_hermitean).conj())\n        elif antihermitean:",
      "            self.transform(AAA_K)\n            AAA_K *= np.prod(self.NKFFT)\n            if hermitian:\n                AAA_K = 0.5 * (AAA_K + AAA_K.swapaxes(*self.axes_hermitean).conj())\n\n        if False:\n            pass\n        elif antihermitean:",
      "fire", "R02.1"),
    V("FFT branch loses its normalisation", FF, "            AAA_K *= np.prod(self.NKFFT)\n", "", "fire", "R02.1"),
    V("derivative with −i", RV, "return 1j * XX_R.reshape((XX_R.shape) + (1,))", "return -1j * XX_R.reshape((XX_R.shape) + (1,))", "fire", "R02.4"),
    V("corner Hamiltonian not Hermitised", DKR, "            _HH_K = self.rvec.R_to_k(_Ham_R, hermitian=True)\n            _Ecorners[:, iv, :] = np.linalg.eigvalsh(_HH_K)",
      "            _HH_K = self.rvec.R_to_k(_Ham_R, hermitian=False)\n            _Ecorners[:, iv, :] = np.linalg.eigvalsh(_HH_K)", "fire", "R02.4"),
    V("fftw wrapper direction swapped", FF, "direction='FFTW_BACKWARD' if inverse else 'FFTW_FORWARD')", "direction='FFTW_FORWARD' if inverse else 'FFTW_BACKWARD')",
      "fire", "R02.5"),
    V("neutral: mode test through a local", RV, "        if self.fft_R_to_k.lib == \"slow_path\":\n            return XX_R",
      "        if self.fft_R_to_k.lib in (\"slow_path\",):\n            return XX_R", "silent"),
]
