"""C02 — all Fourier back ends give the same k-space matrices (sibling agreement; structural clauses).

R02.1 back-end table: sign of the exponent and net normalisation agree across fftw / numpy / explicit sum / k-list, and
      the Hermitisation is applied after every branch.
R02.2 wrapped R-vectors are accumulated on the FFT box (never assigned) and the box indices are R mod NKFFT.
R02.3 the K-shift phase is applied according to the CURRENT transform mode: every attribute that steers apply_expdK is
      re-assigned by every configuration path of set_fft_R_to_k.
R02.4 derivative factors: i·(R + τj − τi), applied `der` times before the transform; HH_K / corner Hamiltonians are Hermitised.
R02.5 q→R library wrappers agree in direction; forward transform is divided by the number of mesh points.
R02.6 no array is shared between the FFTW plan and a caller (may-alias analysis over the methods of FFT_R_to_k).
R02.7 every Data_K object configures (set_fft_R_to_k) a private copy of the system's R-vectors.
R02.8 the back-end selector self.lib holds only normalised (lower-case) names, which is what the dispatch branches compare with.
"""
from __future__ import annotations

import ast
from typing import Dict, List, Optional, Set, Tuple

from ..index import AnalysisError, call_name, norm, norm1
from ..sem import Sem, inline_private_helpers
from .common import (Frag, calls, const_of, enclosing, enclosing_all, eq_const, fctx, if_chain, imag_unit_sign, in_body, is_name, kwarg,
                     method_calls, pmatch, product_factors, stmts, store_targets)

LEVEL = "other"
EXPLANATION = (
    "Cross-check of sibling implementations: for the four R→k branches and the two q→R wrappers the sign of the exponent "
    "(ifftn / fftn, FFTW_BACKWARD / FORWARD, sign of the 2πi literal) and the explicit normalisation are extracted from the "
    "AST and compared; the Hermitisation must post-dominate every branch; placement of R-blocks on the FFT box must be an "
    "accumulation because R is wrapped modulo the box. A small typestate rule decides that apply_expdK only branches on "
    "state that every configuration path of set_fft_R_to_k re-assigns (so a re-configured Rvectors object cannot use stale "
    "grid-shift phases). An interprocedural may-alias analysis over FFT_R_to_k (objects: allocation sites, parameters, the pyfftw plan's "
    "buffers) decides that no array handed to the plan as input is returned to a caller and that the plan's output buffer is copied "
    "before it is returned; Data_K_R must configure a private copy of the R-vectors. The back-end selector self.lib may only hold lower-case literals or values that went through .lower() (typestate of a string against the literals the dispatch compares with), attributes read by the cached phase tables are assigned only in the constructor, and block-wise loops must cover the whole axis (ceil, not floor, number of blocks). Not decided: numerical agreement to rounding. Trusted: numpy/pyFFTW inverse transforms carry 1/N.")

FF = "wannierberri/fourier/fft.py"
RV = "wannierberri/fourier/rvectors.py"
DKR = "wannierberri/data_K/data_K_R.py"


def _sign_of_2pi_i(e: ast.AST) -> Optional[int]:
    """+1 / −1 if the expression contains np.exp(±2j·π·…) ; None if no such call."""
    for c in ast.walk(e):
        if isinstance(c, ast.Call) and call_name(c) in ("np.exp", "numpy.exp") and c.args:
            sg = imag_unit_sign(c.args[0])
            if sg is not None:
                return sg
    return None


def _is_new_axis(e: ast.AST) -> bool:
    return (isinstance(e, ast.Constant) and (e.value is None or e.value is Ellipsis)) or norm(e) in ("np.newaxis", "numpy.newaxis") or \
        (isinstance(e, ast.Slice) and e.lower is None and e.upper is None and e.step is None)


def _inline_properties(cls, e: ast.AST, depth: int = 2) -> ast.AST:
    """`self.P` replaced by the returned expression of P when P is a (cached) property of `cls` whose body is one return of an
    arithmetic expression over self attributes (a named factor such as i·(R + τj − τi) kept in a property)."""
    import copy
    props = {m.name: m for m in cls.methods.values() if any(d.endswith("cached_property") or d == "property" for d in m.decorators)}

    class T(ast.NodeTransformer):
        def visit_Attribute(self, n):
            self.generic_visit(n)
            if isinstance(n.value, ast.Name) and n.value.id == "self" and n.attr in props and isinstance(n.ctx, ast.Load):
                body = [s_ for s_ in props[n.attr].node.body if not (isinstance(s_, ast.Expr) and isinstance(s_.value, ast.Constant))]
                if len(body) == 1 and isinstance(body[0], ast.Return) and isinstance(body[0].value, ast.BinOp) and isinstance(body[0].value.op, ast.Mult) \
                        and any(isinstance(x, ast.Constant) and isinstance(x.value, complex) for x in (body[0].value.left, body[0].value.right)):
                    return ast.copy_location(copy.deepcopy(body[0].value), n)
            return n
    for _ in range(depth):
        e = T().visit(copy.deepcopy(e))
    return e


def _pull_scalars(e: ast.AST) -> ast.AST:
    """(c · A).reshape(s) → c · A.reshape(s) for a numeric constant c (reshaping commutes with scaling)"""
    import copy

    class T(ast.NodeTransformer):
        def visit_Call(self, n):
            self.generic_visit(n)
            if isinstance(n.func, ast.Attribute) and n.func.attr == "reshape" and isinstance(n.func.value, ast.BinOp) and isinstance(n.func.value.op, ast.Mult):
                b = n.func.value
                for c_, a_ in ((b.left, b.right), (b.right, b.left)):
                    if isinstance(c_, ast.Constant) and isinstance(c_.value, (int, float, complex)):
                        inner = ast.Call(func=ast.Attribute(value=a_, attr="reshape", ctx=ast.Load()), args=n.args, keywords=n.keywords)
                        return ast.copy_location(ast.BinOp(left=c_, op=ast.Mult(), right=inner), n)
            return n
    out = T().visit(copy.deepcopy(e))
    ast.fix_missing_locations(out)
    return out


def _broadcast_view_of(e: ast.AST, base: str) -> bool:
    """e is `base` with only size-1 axes inserted: base.reshape(…), np.expand_dims(base, …), base[..., None], base[:, None, None]
    (the values and their order are those of base; which positions the new axes take is not decided here)."""
    if norm(e) == base:
        return True
    if isinstance(e, ast.Call):
        cn = call_name(e)
        if cn.endswith(".reshape") and isinstance(e.func, ast.Attribute) and norm(e.func.value) == base:
            return True
        if cn in ("np.expand_dims", "numpy.expand_dims", "np.reshape", "numpy.reshape") and e.args and norm(e.args[0]) == base:
            return True
    if isinstance(e, ast.Subscript) and norm(e.value) == base:
        elts = e.slice.elts if isinstance(e.slice, ast.Tuple) else [e.slice]
        return all(_is_new_axis(x) for x in elts)
    return False


def run(ctx) -> None:
    idx = ctx.index
    ctx.assume("np.fft.ifftn and a pyFFTW FFTW_BACKWARD plan called through its object (normalise_idft default) both apply "
               "exp(+2πi k·R/N) with a 1/N factor; np.fft.fftn / FFTW_FORWARD apply exp(−…) without a factor")
    cls = idx.cls(FF, "FFT_R_to_k")
    callf = cls.methods.get("__call__")
    trf = cls.methods.get("transform")
    ini = cls.methods.get("__init__")
    if callf is None or trf is None or ini is None:
        raise AnalysisError("FFT_R_to_k methods vanished")
    # statements of private helpers with a simple body are analysed in place (extract-method refactors)
    callf, trf, ini = (inline_private_helpers(idx, x) for x in (callf, trf, ini))
    CS = Sem(idx, callf)
    cfg, du, pm = fctx(callf)
    C = Frag(callf)

    # ---------------------------------------------------------------- R02.1
    r1 = ctx.rule("R02.1", "R→k back ends agree in sign and net normalisation; Hermitisation after every branch", min_instances=4)
    signs: Dict[str, int] = {}
    r1.instance(f"{trf.short}: numpy branch")
    npc = [c for c in ast.walk(trf.node) if isinstance(c, ast.Call) and call_name(c) in ("np.fft.ifftn", "np.fft.fftn", "numpy.fft.ifftn", "numpy.fft.fftn")]
    r1.expect(len(npc) >= 1, "numpy transform located", trf, trf.node, "FFT_R_to_k.transform: no np.fft.(i)fftn call found")
    signs["numpy"] = 0 if not npc else (+1 if all(call_name(c).endswith("ifftn") for c in npc) else -1)
    for c in npc:
        r1.check(const_of(kwarg(c, "axes", 2)) == (0, 1, 2), "numpy transform runs over the three grid axes", trf, c,
                 f"`{norm1(c)}` does not transform exactly the three k-grid axes (0, 1, 2)")
    r1.instance(f"{ini.short}: fftw plan")
    pl = [c for c in ast.walk(ini.node) if isinstance(c, ast.Call) and call_name(c) == "pyfftw.FFTW"]
    r1.expect(len(pl) == 1, "fftw plan located", ini, ini.node, "FFT_R_to_k.__init__: pyfftw.FFTW(…) plan not found")
    dirv = const_of(kwarg(pl[0], "direction"), "FFTW_FORWARD") if pl else None
    signs["fftw"] = +1 if dirv == "FFTW_BACKWARD" else (-1 if dirv == "FFTW_FORWARD" else 0)
    if pl:
        r1.check(const_of(kwarg(pl[0], "axes")) == (0, 1, 2), "fftw plan runs over the three grid axes", ini, pl[0], "the fftw plan does not transform axes (0, 1, 2)")
    for prop, key in (("exponent", "slow"), ("exponent_k_list", "slow_path")):
        f = cls.methods.get(prop)
        if f is None:
            raise AnalysisError(f"FFT_R_to_k.{prop} vanished")
        r1.instance(f"{f.short}")
        signs[key] = _sign_of_2pi_i(f.node) or 0
    r1.check(set(signs.values()) == {1}, f"all four back ends use exp(+2πi k·R): {signs}", f"{FF}:FFT_R_to_k", callf.node,
             f"the Fourier back ends disagree on the sign of the exponent {signs}: H(k) from one back end is H(−k) of another",
             stmt=f"signs {signs}")
    # normalisation: fft branch multiplies by prod(NKFFT) (undoing the 1/N of the inverse transforms); explicit sums have no factor
    arms = [s_ for s_ in stmts(callf.node) if isinstance(s_, ast.If) and eq_const(s_.test, "self.lib") is not ...]
    if not arms:
        raise AnalysisError("FFT_R_to_k.__call__: branch on self.lib not found")
    top = arms[0]
    chain = if_chain(top)
    names = [eq_const(t_, "self.lib") if t_ is not None else "else" for t_, _ in chain]
    r1.check(sorted(map(str, names[:-1])) == ["slow", "slow_path"] and names[-1] == "else" and bool(chain[-1][1]), f"branches: {names}", callf, top,
             f"FFT_R_to_k.__call__ dispatches on {names} (expected the explicit sums 'slow', 'slow_path' and the library branch)", stmt=f"dispatch {names}")
    fft_body = chain[-1][1]
    FB = ast.Module(body=fft_body, type_ignores=[])
    box_def = [s_ for s_ in fft_body if isinstance(s_, ast.Assign) and isinstance(s_.targets[0], ast.Name) and pmatch(s_.value, "np.zeros(self.NKFFT + ANY, dtype=complex)")]
    box = box_def[0].targets[0].id if len(box_def) == 1 else None
    r1.expect(box is not None, "FFT box located", callf, top, "FFT_R_to_k.__call__: `box = np.zeros(self.NKFFT + …, dtype=complex)` not found in the library branch")
    if box is not None:
        aliases = [box] + [s_.targets[0].id for s_ in fft_body if isinstance(s_, ast.Assign) and isinstance(s_.targets[0], ast.Name) and norm(s_.value) == box]
        mult, trc, scal = [], [], []
        for bx in aliases:
            norm_forms = (f"{bx} *= np.prod(self.NKFFT)", f"{bx} = {bx} * np.prod(self.NKFFT)", f"{bx} = np.prod(self.NKFFT) * {bx}")
            mult += [s_ for s_ in fft_body if any(pmatch(s_, p_) and pmatch(s_, p_)[0][0] is s_ for p_ in norm_forms)]
            trc += [s_ for s_ in fft_body if pmatch(s_, f"self.transform({bx})") or pmatch(s_, f"{bx} = self.transform({bx})")]
            scal += [s_ for s_ in fft_body if isinstance(s_, ast.AugAssign) and norm(s_.target) == bx and isinstance(s_.op, (ast.Mult, ast.Div))]
        r1.check(len(mult) == 1 and len(trc) == 1 and len(scal) <= 1,
                 "library branch: inverse transform × prod(NKFFT) = plain sum over R (net factor 1)", callf, mult[0] if mult else (trc[0] if trc else top),
                 "the FFT branch does not multiply the inverse transform by prod(NKFFT) exactly once: it differs from the explicit sums by a factor N")
    for t_, body in chain[:2]:
        B = ast.Module(body=body, type_ignores=[])
        bad = pmatch(B, "np.prod(self.NKFFT)") or [n for n in ast.walk(B) if isinstance(n, ast.BinOp) and isinstance(n.op, ast.Div)
                                                    and any(call_name(c) in ("len", "np.prod") for c in ast.walk(n.right) if isinstance(c, ast.Call))]
        r1.check(not bad, f"explicit-sum branch `{norm1(t_)}` carries no normalisation factor", callf, body[0],
                 f"the explicit branch `{norm1(t_)}` applies a normalisation factor the FFT branch does not have")
    hp = callf.params[2] if len(callf.params) > 2 else "hermitian"
    res_names = {norm(s_.targets[0]) for _, body in chain for s_ in body if isinstance(s_, ast.Assign) and isinstance(s_.targets[0], ast.Name)
                 and body and s_ in body}
    # the assignment A = ½(A + A†), wherever it sits below the branch join, must be guarded by `hermitian` alone (a guard
    # `hermitian or …` around it is implied by it)
    herm_sites = []
    after_top = callf.node.body[callf.node.body.index(top) + 1:] if top in callf.node.body else []
    for top_s in after_top:
        for x in ast.walk(top_s):
            if not (isinstance(x, ast.Assign) and isinstance(x.targets[0], ast.Name) and x.targets[0].id in res_names):
                continue
            nm = x.targets[0].id
            rv = CS.resolve(x.value, cfg.node(x))
            hit = False
            for p_ in (f"0.5 * ({nm} + {nm}.swapaxes(*self.axes_hermitean).conj())", f"({nm} + {nm}.swapaxes(*self.axes_hermitean).conj()) / 2",
                       f"0.5 * ({nm} + {nm}.swapaxes(*self.axes_hermitean).conjugate())", f"0.5 * ({nm} + np.conj({nm}.swapaxes(*self.axes_hermitean)))"):
                m_ = pmatch(rv, p_)
                if m_ and m_[0][0] is rv:
                    hit = True
            if not hit:
                continue
            guards = []
            for g_ in enclosing_all(pm, x, ast.If):
                pol = any(x is y for b_ in g_.body for y in ast.walk(b_))
                guards.append((g_.test, pol))
            direct = [g_ for g_ in guards if norm(g_[0]) == hp and g_[1]]
            implied = [g_ for g_ in guards if g_[1] and isinstance(g_[0], ast.BoolOp) and isinstance(g_[0].op, ast.Or)
                       and any(norm(v_) == hp for v_ in g_[0].values)]
            if len(direct) == 1 and len(direct) + len(implied) == len(guards):
                herm_sites.append(x)
    r1.check(len(herm_sites) == 1, "Hermitisation ½(A + A†) follows the branch join (applies to every back end)", callf,
             herm_sites[0] if herm_sites else top,
             "the Hermitian symmetrisation ½(A + A†) is not applied after all back-end branches: some back ends return non-Hermitian H(k)")
    ax = {}
    kl_if = [s_ for s_ in ini.node.body if isinstance(s_, ast.If) and norm(s_.test) in ("k_list is not None", "k_list is None")]
    r1.expect(len(kl_if) == 1, "k_list branch of the constructor located", ini, ini.node, "FFT_R_to_k.__init__: `if k_list is not None:` not found")
    if len(kl_if) == 1:
        kb, gb = (kl_if[0].body, kl_if[0].orelse) if norm(kl_if[0].test) == "k_list is not None" else (kl_if[0].orelse, kl_if[0].body)
        def stores(body, attr):
            return [const_of(s_.value) for s_ in body if isinstance(s_, ast.Assign) and norm(s_.targets[0]) == f"self.{attr}"]
        r1.check(stores(kb, "axes_hermitean") == [(1, 2)] and stores(gb, "axes_hermitean") == [(3, 4)],
                 "Hermitian axes: (1,2) for k-lists, (3,4) on the FFT box", ini, kl_if[0],
                 f"the axes swapped by the Hermitisation do not match the array layout of the back end (k-list: {stores(kb, 'axes_hermitean')}, box: "
                 f"{stores(gb, 'axes_hermitean')})", stmt="axes_hermitean")
        r1.check(stores(kb, "lib") == ["slow_path"] and not stores(gb, "lib"), "an explicit k-list always selects the k-list back end", ini, kl_if[0],
                 "a k-list no longer forces the explicit k-list transform", stmt="k_list → slow_path")
        late = [s_ for s_ in ini.node.body[ini.node.body.index(kl_if[0]) + 1:] for x in ast.walk(s_) if isinstance(x, ast.Assign) and norm(x.targets[0]) == "self.lib"]
        r1.check(not late, "…and nothing re-assigns self.lib afterwards", ini, late[0] if late else kl_if[0], "self.lib is re-assigned after the k-list branch selected 'slow_path'")

    # ---------------------------------------------------------------- R02.2
    r2 = ctx.rule("R02.2", "R-blocks wrapped onto the FFT box are accumulated", min_instances=1)
    stores_ = []
    for s_ in ast.walk(FB):
        if isinstance(s_, (ast.Assign, ast.AugAssign)):
            tg = s_.targets[0] if isinstance(s_, ast.Assign) else s_.target
            if isinstance(tg, ast.Subscript) and box is not None and norm(tg.value) == box and not (isinstance(tg.slice, ast.Constant) and tg.slice.value is Ellipsis):
                stores_.append(s_)
    # unbuffered ufunc accumulation np.add.at(box, tuple(self.iRvec.T), blocks): duplicates are summed, block ir ↦ row ir of iRvec
    add_at = [c for c in ast.walk(FB) if isinstance(c, ast.Call) and call_name(c) in ("np.add.at", "numpy.add.at") and len(c.args) == 3
              and box is not None and norm(c.args[0]) == box]
    for c in add_at:
        r2.instance(f"{callf.short}: {norm1(c)}")
        ix = CS.resolve(c.args[1], CS.du.node_of_expr(c))
        ok_ix = norm(ix) in ("tuple(self.iRvec.T)", "tuple(self.iRvec.transpose())", "tuple(np.transpose(self.iRvec))",
                             "(self.iRvec[:, 0], self.iRvec[:, 1], self.iRvec[:, 2])")
        r2.check(ok_ix, "placement is the unbuffered accumulation np.add.at(box, (R mod N) as index tuple, blocks)", callf, c,
                 f"`{norm1(c)}`: the index of the unbuffered accumulation is not the tuple of the three columns of self.iRvec: the "
                 f"block and the box point do not belong to the same R-vector")
    if not stores_ and not add_at:
        r2.expect(False, "placement on the FFT box located", callf, top, "FFT_R_to_k.__call__: placement of the R-blocks on the FFT box not found")
    gb_wrap = pmatch(ini.node, "self.iRvec = self.iRvec % self.NKFFT") or pmatch(ini.node, "self.iRvec = np.mod(self.iRvec, self.NKFFT)") or pmatch(ini.node, "self.iRvec %= self.NKFFT")
    r2.check(bool(gb_wrap), "box index = R mod NKFFT (distinct R may share a box point)", ini, ini.node,
             "R-vectors are no longer wrapped modulo the FFT box", stmt="iRvec % NKFFT")
    for s_ in stores_:
        r2.instance(f"{callf.short}: {norm1(s_)}")
        tg = s_.targets[0] if isinstance(s_, ast.Assign) else s_.target
        fancy = isinstance(tg.slice, ast.Tuple)
        lp = enclosing(pm, s_, ast.For)
        one_at_a_time = lp is not None and "self.iRvec" in norm(lp.iter) and not fancy
        r2.check(isinstance(s_, ast.AugAssign) and isinstance(s_.op, ast.Add) and one_at_a_time, "placement is `box[R mod N] += block` one R at a time", callf, s_,
                 f"`{norm1(s_)}` {'assigns' if isinstance(s_, ast.Assign) else 'fancy-index-accumulates'} R-blocks onto the FFT box: R-vectors "
                 f"that wrap onto the same box point (gapped R sets, FFT grids smaller than the R range) overwrite each other — numpy "
                 f"fancy-index stores do not accumulate duplicates — so fftw/numpy differ from the explicit sum")
        if lp is not None and one_at_a_time:
            ok_pair = bool(pmatch(lp, f"for IR, RV in enumerate(self.iRvec):\n    {box}[tuple(RV)] += AR[IR]", {"IR", "RV", "AR"})) or \
                bool(pmatch(lp, f"for RV, BL in zip(self.iRvec, AR):\n    {box}[tuple(RV)] += BL", {"RV", "BL", "AR"}))
            r2.check(ok_pair, "block ir goes to the box point of R-vector ir", callf, lp, f"`{norm1(s_)}`: the block and the box point do not belong to the same R-vector")

    # ---------------------------------------------------------------- R02.3
    r3 = ctx.rule("R02.3", "apply_expdK branches only on state that every configuration path re-assigns")
    rvc = idx.cls(RV, "Rvectors")
    setf = rvc.methods.get("set_fft_R_to_k")
    apf = rvc.methods.get("apply_expdK")
    if setf is None or apf is None:
        raise AnalysisError("Rvectors.set_fft_R_to_k / apply_expdK vanished")
    r3.instance(f"{apf.short} ⟷ {setf.short}")
    tops = [s for s in setf.node.body if isinstance(s, ast.If)]
    if len(tops) != 1:
        klp_ = next((p_ for p_ in setf.params if "k_list" in p_), "k_list")
        tops = [s for s in tops if norm(s.test) in (f"{klp_} is not None", f"{klp_} is None")]
    if len(tops) != 1:
        raise AnalysisError("set_fft_R_to_k: expected one top-level mode branch")

    def assigned(body) -> Set[str]:
        out = set()
        for s in body:
            for x in ast.walk(s):
                if isinstance(x, ast.Assign):
                    for t in x.targets:
                        if isinstance(t, ast.Attribute) and is_name(t.value, "self"):
                            out.add(t.attr)
        return out
    a1, a2 = assigned(tops[0].body), assigned(tops[0].orelse)
    after = assigned([s for s in setf.node.body if s is not tops[0]])
    always = (a1 & a2) | after
    r3.note(f"set_fft_R_to_k assigns on the k-list path {sorted(a1 | after)}, on the grid path {sorted(a2 | after)}; on every path {sorted(always)}")
    conds = [s.test for s in ast.walk(apf.node) if isinstance(s, ast.If)]
    for c in conds:
        read = {x.attr for x in ast.walk(c) if isinstance(x, ast.Attribute) and is_name(x.value, "self")}
        read |= {x.args[1].value for x in ast.walk(c) if isinstance(x, ast.Call) and call_name(x) in ("getattr", "hasattr") and len(x.args) >= 2
                 and is_name(x.args[0], "self") and isinstance(x.args[1], ast.Constant)}
        stale = sorted(read - always)
        r3.check(not stale, f"guard `{norm1(c)}` reads only state re-assigned on every configuration path", apf, c,
                 f"apply_expdK decides whether to apply the grid-shift phase from `{norm1(c)}`, but self.{stale[0] if stale else ''} is only "
                 f"assigned on one path of set_fft_R_to_k: after re-configuring the same Rvectors object from a shifted FFT grid to an "
                 f"explicit k-list the stale grid phases exp(2πi dK·R) are multiplied into the k-list transform")
    xp = apf.params[1] if len(apf.params) > 1 else "XX_R"
    ret = [s_ for s_ in stmts(apf.node) if isinstance(s_, ast.Return) and s_.value is not None and norm(s_.value) != xp]
    AS = Sem(idx, apf)
    rv_ = AS.resolve(ret[0].value, AS.cfg.node(ret[0])) if len(ret) == 1 else None
    okm = rv_ is not None and isinstance(rv_, ast.BinOp) and isinstance(rv_.op, ast.Mult) and (
        (norm(rv_.left) == xp and norm(rv_.right) != "self.expdK" and _broadcast_view_of(rv_.right, "self.expdK")) or
        (norm(rv_.right) == xp and norm(rv_.left) != "self.expdK" and _broadcast_view_of(rv_.left, "self.expdK")))
    ed = [s_ for s_ in ast.walk(setf.node) if isinstance(s_, ast.Assign) and norm(s_.targets[0]) == "self.expdK"]
    oke = len(ed) == 1 and _sign_of_2pi_i(ed[0].value) == +1 and bool(
        pmatch(ed[0].value, "self.iRvec.dot(self.dK)") or pmatch(ed[0].value, "self.iRvec @ self.dK") or pmatch(ed[0].value, "np.dot(self.iRvec, self.dK)"))
    r3.check(okm and oke, "grid mode: X(R) · exp(+2πi dK·R)", apf, ret[0] if ret else apf.node,
             "the K-shift phase is no longer exp(+2πi dK·R) multiplied into X(R)", stmt="expdK")
    dkd = [s_ for s_ in ast.walk(setf.node) if isinstance(s_, ast.Assign) and norm(s_.targets[0]) == "self.dK"]
    dkp = "dK"
    r3.check(len(dkd) == 1 and norm(dkd[0].value) in (f"np.array({dkp})", f"np.asarray({dkp})", dkp) and bool(ed) and dkd[0].lineno < ed[0].lineno,
             "the phase is built from the dK of this configuration", setf, dkd[0] if dkd else setf.node, "self.dK is not (re)assigned from the dK argument before the phase is built")

    # ---------------------------------------------------------------- R02.4
    r4 = ctx.rule("R02.4", "derivative factors and Hermitisation of the Hamiltonian", min_instances=3)
    dv = rvc.methods.get("derivative")
    rk = rvc.methods.get("R_to_k")
    r4.instance(dv.short)
    dxp = dv.params[1]
    rets = [s_ for s_ in stmts(dv.node) if isinstance(s_, ast.Return) and s_.value is not None]
    okd = False
    rres = None
    if len(rets) == 1:
        DS = Sem(idx, dv)
        rres = _pull_scalars(_inline_properties(rvc, DS.resolve(rets[0].value, DS.cfg.node(rets[0]))))
        sg, fs = product_factors(rres)
        okd = imag_unit_sign(rres) == +1 and any(norm(f_) != dxp and _broadcast_view_of(f_, dxp) for f_ in fs) and \
            any(norm(f_) != "self.cRvec_shifted" and _broadcast_view_of(f_, "self.cRvec_shifted") for f_ in fs) and len(fs) == 3
    is_product = len(rets) == 1 and isinstance(rres, ast.BinOp) and isinstance(rres.op, ast.Mult) if len(rets) == 1 else False
    if is_product or okd:
        r4.check(okd, "∂/∂k ↦ multiplication by +i (R + τj − τi)", dv, rets[0] if rets else dv.node,
                 "the k-derivative is no longer multiplication of X(R) by +i·(R + τj − τi) (the sign must match exp(+ik·R))", stmt="derivative")
    else:
        r4.expect(False, "", dv, dv.node, "Rvectors.derivative: the result is not a single product expression (filled in place / block by block): the factor "
                  "i·(R + τj − τi) cannot be read off")
    # block-wise processing anywhere in the transform classes must visit the whole axis
    from .chunks import decide_block_loop
    for m_ in list(rvc.methods.values()) + list(cls.methods.values()):
        loops_ = [x for x in ast.walk(m_.node) if isinstance(x, ast.For)]
        if not loops_:
            continue
        MS_ = Sem(idx, m_)
        for lp_ in loops_:
            res_ = decide_block_loop(MS_, lp_)
            if res_ is None:
                continue
            v_, why_, desc_ = res_
            r4.instance(f"{m_.short}: block loop {desc_}")
            if v_ is None:
                r4.note(f"{m_.short}: loop `{desc_}` slices by the loop variable but is not a recognised block loop (no claim)")
            else:
                r4.check(v_, f"{m_.name}: the blocks cover the whole axis", m_, lp_, f"{m_.qualname}: {why_}: those entries of X(R) are transformed without "
                         f"the factor the other entries get, so the result depends on where an orbital sits in the list")
    r4.instance(rk.short)
    K = Frag(rk)
    xr, derp, hp2 = rk.params[1:4]
    KS = Sem(idx, rk)
    lps = [l for l in stmts(rk.node) if isinstance(l, ast.For) and norm(l.iter) == f"range({derp})" and len(l.body) == 1]
    okr = False
    if len(lps) == 1:
        m_ = pmatch(lps[0].body[0], "V_ = self.derivative(V_)", {"V_"})
        if m_ and m_[0][0] is lps[0].body[0]:
            v_ = m_[0][1]["V_"]
            init = [d for d in KS.du.reaching(v_, KS.cfg.node(lps[0])) if d.kind != "assign" or d.stmt is not lps[0].body[0]]
            init_ok = v_ == xr or all(d.kind == "assign" and d.value is not None and norm(d.value) in (xr, f"{xr}.copy()") for d in init if d.stmt is not lps[0].body[0])
            rets_ = [s_ for s_ in stmts(rk.node) if isinstance(s_, ast.Return) and s_.value is not None]
            if len(rets_) == 1 and init_ok:
                rv2 = rets_[0].value
                while isinstance(rv2, ast.Name):
                    d2 = KS.du.single_def(rv2.id, KS.cfg.node(rets_[0]))
                    if d2 is None or d2.kind != "assign":
                        break
                    rv2 = d2.value
                okr = isinstance(rv2, ast.Call) and norm(rv2.func) == "self.fft_R_to_k" and rv2.args and norm(rv2.args[0]) == v_ and \
                    kwarg(rv2, "hermitian", 1) is not None and norm(kwarg(rv2, "hermitian", 1)) == hp2
    if not okr:
        # functional form: self.fft_R_to_k(reduce(lambda X, _: self.derivative(X), range(der), XX_R), hermitian=hermitian), possibly via a helper
        for c_ in [c for c in ast.walk(rk.node) if isinstance(c, ast.Call) and norm(c.func) == "self.fft_R_to_k" and c.args]:
            a_ = KS.resolve(c_.args[0], KS.du.node_of_expr(c_))
            if isinstance(a_, ast.Call) and call_name(a_) in ("reduce", "functools.reduce") and len(a_.args) == 3 and isinstance(a_.args[0], ast.Lambda):
                lam = a_.args[0]
                lp_ = [x.arg for x in lam.args.args]
                okr = len(lp_) == 2 and norm(lam.body) == f"self.derivative({lp_[0]})" and norm(a_.args[1]) == f"range({derp})" and \
                    norm(a_.args[2]) in (xr, f"{xr}.copy()") and kwarg(c_, "hermitian", 1) is not None and norm(kwarg(c_, "hermitian", 1)) == hp2
    r4.check(okr, "R_to_k applies the derivative `der` times, then one transform", rk, rk.node,
             "R_to_k no longer applies `der` derivative factors before a single transform", stmt="R_to_k")
    hdef = None
    pa = rk.node.args
    names_ = [x.arg for x in pa.args]
    if hp2 in names_:
        i_ = names_.index(hp2) - (len(pa.args) - len(pa.defaults))
        hdef = const_of(pa.defaults[i_]) if i_ >= 0 else None
    dk = idx.cls(DKR, "Data_K_R")
    hh = dk.methods.get("HH_K")
    r4.instance(hh.short)
    hc = [c for c in method_calls(hh.node, "R_to_k")]
    r4.expect(len(hc) >= 1, "HH_K transform located", hh, hh.node, "Data_K_R.HH_K: R_to_k call not found")
    r4.check(bool(hc) and all(const_of(kwarg(c, "hermitian", 2), hdef) is True for c in hc) and any(c.args and norm(c.args[0]) == "self.Ham_R" for c in hc),
             "HH_K is the Hermitised transform of Ham_R", hh, hc[0] if hc else hh.node,
             "Data_K_R.HH_K is no longer R_to_k(self.Ham_R) with hermitian=True", stmt="HH_K hermitian")
    for mname in ("E_K_corners_tetra", "E_K_corners_parallel"):
        m = dk.methods.get(mname)
        if m is None:
            raise AnalysisError(f"Data_K_R.{mname} vanished")
        m = inline_private_helpers(idx, m)
        cs = [c for c in method_calls(m.node, "R_to_k")]
        if not r4.expect(bool(cs), f"{mname}: corner transform located", m, m.node, f"Data_K_R.{mname}: no R_to_k call found (also not in its private helpers)"):
            continue
        r4.check(all(const_of(kwarg(c, "hermitian", 2), hdef) is True for c in cs),
                 f"{mname}: corner Hamiltonians are Hermitised like HH_K", m, cs[0] if cs else m.node,
                 f"{mname} transforms the corner Hamiltonian without hermitian=True (its sibling HH_K uses it)")
    xb = dk.methods.get("Xbar")
    xc = [c for c in method_calls(xb.node, "_R_to_k_H")] or [c for c in method_calls(xb.node, "R_to_k")]
    r4.expect(len(xc) == 1, "Xbar transform located", xb, xb.node, "Data_K_R.Xbar: the _R_to_k_H / R_to_k call was not found")
    hv = kwarg(xc[0], "hermitian", 2) if xc else None
    if hv is not None:
        XS = Sem(idx, xb)
        hv = XS.resolve(hv, XS.du.node_of_expr(xc[0]))
    hset = None
    if isinstance(hv, ast.Compare) and len(hv.ops) == 1 and isinstance(hv.ops[0], ast.In) and isinstance(hv.comparators[0], (ast.List, ast.Tuple, ast.Set)):
        hset = sorted(const_of(e) for e in hv.comparators[0].elts)
    r4.check(hset == ["AA", "OO", "SS", "rotAA"], "Xbar Hermitises exactly the Hermitian operators", xb, xc[0] if xc else xb.node,
             f"the set of matrices Hermitised in Xbar is {hset}", stmt="Xbar hermitian list")

    # ---------------------------------------------------------------- R02.5
    r5 = ctx.rule("R02.5", "q→R wrappers agree in direction; forward transform ÷ N", min_instances=2)
    fnp = idx.function(FF, "fft_np")
    fw = idx.function(FF, "fft_W")
    r5.instance(fnp.short)
    invp = "inverse"
    np_ok = bool(pmatch(fnp.node, f"if {invp}:\n    return np.fft.ifftn(ANY, axes=ANY)\nelse:\n    return np.fft.fftn(ANY, axes=ANY)")
                 or pmatch(fnp.node, f"if not {invp}:\n    return np.fft.fftn(ANY, axes=ANY)\nelse:\n    return np.fft.ifftn(ANY, axes=ANY)")
                 or pmatch(fnp.node, f"return np.fft.ifftn(ANY, axes=ANY) if {invp} else np.fft.fftn(ANY, axes=ANY)")
                 or (pmatch(fnp.node, f"if {invp}:\n    return np.fft.ifftn(ANY, axes=ANY)") and pmatch(fnp.node, "return np.fft.fftn(ANY, axes=ANY)")))
    if not np_ok:
        NS = Sem(idx, fnp)
        for r_ in [s_ for s_ in stmts(fnp.node) if isinstance(s_, ast.Return) and isinstance(s_.value, ast.Call)]:
            fr = NS.resolve(r_.value.func, NS.cfg.node(r_))
            if pmatch(fr, f"np.fft.ifftn if {invp} else np.fft.fftn") or pmatch(fr, f"np.fft.fftn if not {invp} else np.fft.ifftn"):
                np_ok = kwarg(r_.value, "axes", 1) is not None
    r5.instance(fw.short)
    wp = [c for c in ast.walk(fw.node) if isinstance(c, ast.Call) and call_name(c) == "pyfftw.FFTW"]
    dv_ = kwarg(wp[0], "direction") if len(wp) == 1 else None
    if dv_ is not None:
        WS = Sem(idx, fw)
        dv_ = WS.resolve(dv_, WS.du.node_of_expr(wp[0]))
    w_ok = dv_ is not None and bool(pmatch(dv_, f"'FFTW_BACKWARD' if {invp} else 'FFTW_FORWARD'") or pmatch(dv_, f"'FFTW_FORWARD' if not {invp} else 'FFTW_BACKWARD'"))
    r5.expect(len(wp) == 1, "pyfftw plan of fft_W located", fw, fw.node, "fft_W: pyfftw.FFTW(…) not found")
    r5.check(np_ok and w_ok, "both wrappers: inverse ⇒ backward (ifftn), otherwise forward (fftn)", fw, wp[0] if wp else fw.node,
             f"fft_np and fft_W map `inverse` to different transform directions (numpy ok: {np_ok}, fftw ok: {w_ok}): real-space matrices "
             f"depend on the FFT library", stmt="direction")
    ex = idx.function(FF, "execute_fft")
    cw = [c for c in calls(ex.node, "fft_W") if call_name(c) == "fft_W"]
    cn = [c for c in calls(ex.node, "fft_np") if call_name(c) == "fft_np"]
    r5.expect(len(cw) == 1 and len(cn) == 1, "library dispatch located", ex, ex.node, "execute_fft: calls of fft_W / fft_np not found")
    okx = len(cw) == 1 and len(cn) == 1 and all(kwarg(c, "inverse", 2) is not None and norm(kwarg(c, "inverse", 2)) == "inverse" for c in cw + cn) \
        and all(norm(c.args[0]) == ex.params[0] and (kwarg(c, "axes", 1) is not None and norm(kwarg(c, "axes", 1)) == ex.params[1]) for c in cw + cn)
    r5.check(okx, "execute_fft forwards input, axes and `inverse` unchanged to both libraries", ex, (cw + cn + [ex.node])[0],
             "execute_fft does not pass input/axes/`inverse` identically to both libraries", stmt="execute_fft")
    q = rvc.methods.get("q_to_R")
    Q = Frag(q)
    aq = q.params[1]
    place = Q.find(f"for i, k in enumerate(self.kpt_mp_grid):\n    AA_q_mp[k] = {aq}[i]")
    fcall = [c for c in calls(q.node, "execute_fft") if call_name(c) == "execute_fft"]
    okq = bool(place) and len(fcall) == 1
    if okq:
        c = fcall[0]
        par = fctx(q)[2].get(c)
        okq = const_of(kwarg(c, "inverse", 2), False) is False and const_of(kwarg(c, "axes", 1)) == (0, 1, 2) and norm(c.args[0]) == place[0][1]["AA_q_mp"] \
            and isinstance(par, ast.BinOp) and isinstance(par.op, ast.Div) and par.left is c and norm(par.right) in ("np.prod(self.mp_grid)", "self.mp_grid.prod()")
    r5.check(okq, "q→R: mesh placement by integer coordinates, forward transform divided by the number of mesh points", q, fcall[0] if fcall else q.node,
             "q_to_R is no longer (forward FFT over axes 0,1,2)/N_mesh of the matrices placed at their mesh coordinates", stmt="q_to_R")

    # ---------------------------------------------------------------- R02.6
    fftw_buffer_ownership(ctx, cls)

    # ---------------------------------------------------------------- R02.8
    backend_selector(ctx, cls)
    transform_object_state(ctx, cls)

    # ---------------------------------------------------------------- R02.7
    r7 = ctx.rule("R02.7", "every Data_K object configures its own copy of the R-vectors")
    conf_sites = []
    for f_ in idx.all_functions():
        if not f_.module.relpath.startswith("wannierberri/") or f_.module.relpath == RV:
            continue
        for c_ in method_calls(f_.node, "set_fft_R_to_k"):
            conf_sites.append((f_, c_))
    r7.expect(bool(conf_sites), "configuration call located", RV, rvc.node, "no caller of Rvectors.set_fft_R_to_k found")
    FRESH = ("copy", "deepcopy")
    for f_, c_ in conf_sites:
        r7.instance(f"{f_.short}: {norm1(c_, 60)}")
        recv = c_.func.value
        FS_ = Sem(idx, f_)
        fcfg, fdu, fpm = FS_.cfg, FS_.du, FS_.pm
        st_ = enclosing(fpm, c_, ast.stmt)
        okfresh, whyf = False, f"`{norm1(recv)}` is not assigned from a copy in {f_.qualname}"
        if isinstance(recv, ast.Attribute) and isinstance(recv.value, ast.Name) and recv.value.id == "self":
            stores = [s_ for s_ in stmts(f_.node) if isinstance(s_, ast.Assign) and len(s_.targets) == 1 and norm(s_.targets[0]) == norm(recv)]
            doms = [s_ for s_ in stores if fcfg.dominates(fcfg.node(s_), fcfg.node(st_))]
            if doms:
                v_ = doms[-1].value
                v_r = FS_.resolve(v_, fcfg.node(doms[-1]))
                is_copy = isinstance(v_r, ast.Call) and ((isinstance(v_r.func, ast.Attribute) and v_r.func.attr in FRESH)
                                                         or call_name(v_r) in ("copy.copy", "copy.deepcopy", "deepcopy", "Rvectors"))
                okfresh = is_copy
                whyf = f"`{norm1(recv)} = {norm1(v_r, 60)}` shares the object with its source"
        elif isinstance(recv, ast.Name):
            ds_ = fdu.reaching(recv.id, fcfg.node(st_))
            okfresh = bool(ds_) and all(d_.value is not None and isinstance(d_.value, ast.Call) and
                                        ((isinstance(d_.value.func, ast.Attribute) and d_.value.func.attr in FRESH) or call_name(d_.value) in ("copy.copy", "copy.deepcopy", "Rvectors"))
                                        for d_ in ds_)
        r7.check(okfresh, "set_fft_R_to_k is applied to a private copy of the system's R-vectors", f_, st_,
                 f"{whyf}: set_fft_R_to_k stores the grid shift dK, the phases and the FFT object in it, so every Data_K built for the same system "
                 f"re-configures the others — matrices are then transformed with another K-point's shift / library", stmt="rvec shared")
    cpy = rvc.methods.get("copy")
    okcp = False
    if cpy is not None:
        CS_ = Sem(idx, cpy)
        for v_, _cs, st2 in return_cases_c02(CS_):
            v_ = CS_.resolve(v_, CS_.cfg.node(st2)) if isinstance(v_, ast.Name) else v_
            okcp = isinstance(v_, ast.Call) and call_name(v_) in ("Rvectors", "self.__class__", "type(self)", "copy.deepcopy", "deepcopy")
    r7.check(okcp, "Rvectors.copy() builds a new object", cpy or RV, cpy.node if cpy else rvc.node,
             "Rvectors.copy() no longer constructs a new Rvectors object", stmt="Rvectors.copy")


def transform_object_state(ctx, cls) -> None:
    """R02.9 — the phase tables of FFT_R_to_k (`exponent`, `exponent_k_list`) are cached properties computed from attributes set by the
    constructor.  Re-using a constructed object with one of those attributes replaced keeps the table of the previous k-list / grid:
    outside FFT_R_to_k.__init__ nothing may assign an attribute that a cached property of the class reads."""
    idx = ctx.index
    r9 = ctx.rule("R02.9", "attributes behind FFT_R_to_k's cached phase tables are only set by its constructor", min_instances=1)
    cached = {m.name: m for m in cls.methods.values() if any(d.endswith("cached_property") for d in m.decorators)}
    reads = set()
    for m in cached.values():
        for x in ast.walk(m.node):
            if isinstance(x, ast.Attribute) and isinstance(x.value, ast.Name) and x.value.id == "self" and x.attr not in cached and x.attr not in cls.methods:
                reads.add(x.attr)
    r9.expect(bool(cached) and bool(reads), "cached phase tables located", f"{FF}:FFT_R_to_k", cls.node, "FFT_R_to_k: no cached property reading constructor state found")
    r9.instance(f"FFT_R_to_k cached {sorted(cached)} read {sorted(reads)}")
    n_sites = 0
    for f in idx.all_functions():
        rp = f.module.relpath
        if not (rp.startswith("wannierberri/fourier/") or rp.startswith("wannierberri/data_K/") or rp.startswith("wannierberri/system/")):
            continue
        inside = f.cls is cls
        if inside and f.name == "__init__":
            continue
        FS = None
        for st in ast.walk(f.node):
            tgts = st.targets if isinstance(st, ast.Assign) else [st.target] if isinstance(st, (ast.AugAssign, ast.AnnAssign)) else []
            for t in tgts:
                for x in (t.elts if isinstance(t, ast.Tuple) else [t]):
                    if not (isinstance(x, ast.Attribute) and x.attr in reads):
                        continue
                    recv = x.value
                    is_obj = inside and isinstance(recv, ast.Name) and recv.id == "self"
                    if not is_obj:
                        txt = norm(recv)
                        if isinstance(recv, ast.Name):
                            FS = FS or Sem(idx, f)
                            try:
                                alts = FS.alternatives(recv, FS.cfg.node(st))
                            except Exception:
                                alts = []
                            txt = " | ".join(norm(a) for a in alts) or txt
                        is_obj = "fft_R_to_k" in txt or "FFT_R_to_k(" in txt
                    if is_obj:
                        n_sites += 1
                        stale = sorted(c_ for c_, m_ in cached.items() if any(isinstance(y, ast.Attribute) and y.attr == x.attr and isinstance(y.value, ast.Name)
                                                                                 and y.value.id == "self" for y in ast.walk(m_.node)))
                        r9.violation(f, st, f"`{norm1(st)}` replaces `{x.attr}` of a constructed FFT_R_to_k object; its cached {stale} was computed from the "
                                     f"previous value and is not rebuilt, so the next transform uses the phases of the old k-list / grid")
    r9.ok(f"no assignment to {sorted(reads)} of an FFT_R_to_k object outside its constructor ({n_sites} sites)") if n_sites == 0 else None


def backend_selector(ctx, cls) -> None:
    """R02.8 — the branches of transform / __call__ compare self.lib with lower-case literals.  Whatever is stored in self.lib must
    therefore be a lower-case literal or a value that went through .lower() (directly or in a helper): a raw constructor argument
    ('FFTW', 'Numpy' are accepted spellings) matches no branch and the transform is silently skipped."""
    idx = ctx.index
    r8 = ctx.rule("R02.8", "the back-end selector self.lib only holds normalised (lower-case) names", min_instances=2)
    literals = set()
    for m in cls.methods.values():
        for c in ast.walk(m.node):
            if isinstance(c, ast.Compare) and len(c.ops) == 1 and isinstance(c.ops[0], (ast.Eq, ast.NotEq, ast.In, ast.NotIn)):
                sides = [c.left, c.comparators[0]]
                if any(norm(x) == "self.lib" for x in sides):
                    for x in sides:
                        for k in ast.walk(x):
                            if isinstance(k, ast.Constant) and isinstance(k.value, str):
                                literals.add(k.value)
    r8.expect(bool(literals), "dispatch literals located", f"{FF}:FFT_R_to_k", cls.node, "FFT_R_to_k: no comparison of self.lib with a string literal found")
    lower_only = all(v == v.lower() for v in literals)

    def normalised(S: Sem, e: ast.AST, at: int, depth: int = 0, seen=None) -> bool:
        seen = seen if seen is not None else set()
        if isinstance(e, ast.Constant) and isinstance(e.value, str):
            return e.value == e.value.lower()
        if isinstance(e, ast.Call) and isinstance(e.func, ast.Attribute) and e.func.attr in ("lower", "casefold") and not e.args:
            return True
        if isinstance(e, ast.IfExp):
            return normalised(S, e.body, at, depth, seen) and normalised(S, e.orelse, at, depth, seen)
        if isinstance(e, ast.Name):
            ds = S.du.reaching(e.id, at)
            if not ds:
                return False
            for d in ds:
                if (d.name, d.node) in seen:
                    continue
                seen.add((d.name, d.node))
                if d.kind != "assign" or d.value is None or d.index is not None:
                    return False
                if not normalised(S, d.value, d.node, depth, seen):
                    return False
            return True
        if isinstance(e, ast.Call) and depth < 2:
            fn = e.func
            name = fn.id if isinstance(fn, ast.Name) else fn.attr if isinstance(fn, ast.Attribute) and isinstance(fn.value, ast.Name) and fn.value.id in ("self", "cls") else None
            g = S.fi.module.functions.get(name) if isinstance(fn, ast.Name) and name else (idx.find_method(cls, name) if name else None)
            if g is None:
                return False
            GS = Sem(idx, g)
            rets = [r for r in ast.walk(g.node) if isinstance(r, ast.Return)]
            return bool(rets) and all(r.value is not None and normalised(GS, r.value, GS.cfg.node(r), depth + 1, set()) for r in rets)
        return False
    for m in cls.methods.values():
        MS = None
        for st in ast.walk(m.node):
            if isinstance(st, ast.Assign) and any(norm(t) == "self.lib" for t in st.targets):
                MS = MS or Sem(idx, m)
                r8.instance(f"{m.short}: {norm1(st)}")
                ok = normalised(MS, st.value, MS.cfg.node(st))
                r8.check(ok and lower_only, "stored back-end name is a lower-case literal or went through .lower()", m, st,
                         f"`{norm1(st)}` stores a name that was not normalised with .lower(): the branches of transform()/__call__ compare self.lib with "
                         f"{sorted(literals)}, so an accepted spelling such as 'FFTW' or 'Numpy' selects no branch and the grid transform is silently skipped "
                         f"(the back ends then disagree)")


def return_cases_c02(S):
    from ..sem import return_cases
    return return_cases(S)


VIEW_M = ("reshape", "transpose", "swapaxes", "view", "squeeze", "ravel")
VIEW_F = ("np.asarray", "np.moveaxis", "np.transpose", "np.swapaxes", "np.reshape", "np.squeeze", "np.ravel", "np.atleast_1d", "np.asanyarray",
          "np.ascontiguousarray")


def fftw_buffer_ownership(ctx, cls) -> None:
    """R02.6 — no array is shared between the FFTW plan and a caller.

    pyfftw adopts a suitably aligned input array as the plan's own input buffer and returns its own output buffer; both are
    overwritten by the next transform.  So (a) an array handed to `self.fft_plan(...)` must not be one that is returned to the
    caller of FFT_R_to_k.__call__, and (b) the plan's output buffer must not be returned without being copied.  Decided by a
    may-alias analysis over the methods of FFT_R_to_k (objects = allocation sites, parameters, 'plan'); in-place slice stores copy
    values and create no alias."""
    idx = ctx.index
    r6 = ctx.rule("R02.6", "FFTW plan buffers are never shared with a caller's array")
    methods = {n: m for n, m in cls.methods.items()}
    ret_tags: Dict[str, Set[str]] = {n: set() for n in methods}     # what the return value may alias
    handed: Dict[str, Set[str]] = {n: set() for n in methods}       # objects handed to the plan (as plan input)
    plan_calls = []

    def analyse(name: str) -> Tuple[Set[str], Set[str]]:
        m = methods[name]
        cfg, du, pm = fctx(m)
        params = [p_ for p_ in m.params if p_ != "self"]
        memo: Dict[Tuple[int, int], Set[str]] = {}

        def alias(e: ast.AST, at: int, busy: Set[Tuple[str, int]]) -> Set[str]:
            if isinstance(e, ast.Call):
                cn = call_name(e)
                if norm(e.func) == "self.fft_plan":
                    return {"plan"}
                if isinstance(e.func, ast.Attribute) and isinstance(e.func.value, ast.Name) and e.func.value.id == "self" and e.func.attr in methods:
                    callee = e.func.attr
                    cps = [p_ for p_ in methods[callee].params if p_ != "self"]
                    bind = {p_: a_ for p_, a_ in zip(cps, e.args)}
                    bind.update({k.arg: k.value for k in e.keywords if k.arg})
                    out: Set[str] = set()
                    for t in ret_tags[callee]:
                        if t.startswith("param:"):
                            a_ = bind.get(t[6:])
                            out |= alias(a_, at, busy) if a_ is not None else set()
                        elif t == "plan":
                            out.add("plan")
                        else:
                            out.add(f"alloc:{callee}")      # an object allocated by the callee
                    return out
                if isinstance(e.func, ast.Attribute) and e.func.attr in VIEW_M and cn not in VIEW_F:
                    return alias(e.func.value, at, busy)
                if cn in VIEW_F and e.args:
                    return alias(e.args[0], at, busy)
                return {f"alloc:{name}:{getattr(e, 'lineno', 0)}"}
            if isinstance(e, (ast.BinOp, ast.UnaryOp, ast.Compare, ast.BoolOp, ast.Constant, ast.ListComp, ast.List, ast.Tuple, ast.JoinedStr)):
                return {f"alloc:{name}:{getattr(e, 'lineno', 0)}"}
            if isinstance(e, ast.Attribute) and e.attr == "T":
                return alias(e.value, at, busy)
            if isinstance(e, ast.Attribute):
                return {f"attr:{norm(e)}"}
            if isinstance(e, ast.Subscript):
                return alias(e.value, at, busy)
            if isinstance(e, ast.IfExp):
                return alias(e.body, at, busy) | alias(e.orelse, at, busy)
            if isinstance(e, ast.Name):
                out = set()
                for d in du.reaching(e.id, at):
                    key = (e.id, d.node)
                    if d.kind == "param":
                        out.add(f"param:{e.id}")
                    elif key in busy:
                        continue
                    elif d.kind == "aug":
                        out |= alias(ast.Name(id=e.id, ctx=ast.Load()), d.node, busy | {key})     # in place: the same object
                    elif d.value is not None and d.kind in ("assign", "walrus"):
                        out |= alias(d.value, d.node, busy | {key})
                    else:
                        out.add(f"alloc:{name}:{d.kind}")
                return out
            return {f"alloc:{name}:?"}

        rt: Set[str] = set()
        hd: Set[str] = set()
        for s_ in stmts(m.node):
            if isinstance(s_, ast.Return) and s_.value is not None:
                rt |= alias(s_.value, cfg.node(s_), set())
        for c_ in ast.walk(m.node):
            if not isinstance(c_, ast.Call):
                continue
            at = du.node_of_expr(c_)
            if norm(c_.func) == "self.fft_plan" and c_.args:
                tags = alias(c_.args[0], at, set())
                hd |= tags
                plan_calls.append((m, c_, tags))
            elif isinstance(c_.func, ast.Attribute) and isinstance(c_.func.value, ast.Name) and c_.func.value.id == "self" and c_.func.attr in methods:
                callee = c_.func.attr
                cps = [p_ for p_ in methods[callee].params if p_ != "self"]
                bind = {p_: a_ for p_, a_ in zip(cps, c_.args)}
                bind.update({k.arg: k.value for k in c_.keywords if k.arg})
                for t in handed[callee]:
                    if t.startswith("param:") and bind.get(t[6:]) is not None:
                        hd |= alias(bind[t[6:]], at, set())
        return rt, hd

    for _ in range(5):
        changed = False
        plan_calls.clear()
        for n_ in methods:
            rt, hd = analyse(n_)
            if rt != ret_tags[n_] or hd != handed[n_]:
                ret_tags[n_], handed[n_] = rt, hd
                changed = True
        if not changed:
            break
    r6.expect(bool(plan_calls), "FFTW plan execution located", f"{FF}:FFT_R_to_k", cls.node, "FFT_R_to_k: no call of self.fft_plan(...) found")
    entry = methods.get("__call__")
    r6.instance(f"{entry.short}: returns {sorted(ret_tags['__call__'])}; handed to the plan {sorted(handed['__call__'])}")
    shared = {t for t in ret_tags["__call__"] & handed["__call__"] if not t.startswith("attr:")}
    where = plan_calls[0][1] if plan_calls else entry.node
    r6.check(not shared, "the array returned by __call__ is never the plan's input buffer", plan_calls[0][0] if plan_calls else entry, where,
             f"the grid array built in __call__ ({sorted(shared)}) is handed to the FFTW plan without a copy and is also returned: pyfftw adopts it as "
             f"the plan's input buffer, so a later transform through the same object overwrites a result the caller still holds "
             f"(FFTW and numpy back ends then disagree)", stmt="plan input shared with the result")
    r6.check("plan" not in ret_tags["__call__"], "the plan's output buffer is copied before it is returned", entry, entry.node,
             "__call__ can return the FFTW plan's own output buffer: the next transform through the same object overwrites the matrices "
             "returned earlier", stmt="plan output returned")


from ..selftest import V  # noqa: E402

SELFTEST = [
    V("back-end name stored before it is lower-cased (seeded C02-m5)", FF, "        fftlib = fftlib.lower()\n        assert fftlib in ('fftw', 'numpy', 'slow')",
      "        assert fftlib.lower() in ('fftw', 'numpy', 'slow')", "fire", "R02.8"),
    V("back-end name stripped and lower-cased", FF, "        fftlib = fftlib.lower()\n        assert fftlib in ('fftw', 'numpy', 'slow')",
      "        fftlib = fftlib.strip().lower()\n        assert fftlib in ('fftw', 'numpy', 'slow')", "silent", "R02.8"),
    V("k-list of a constructed transform object replaced in place (seeded C02-m6)", RV,
      "        if k_list is not None:\n            self.fft_R_to_k = FFT_R_to_k(\n                iRvec=self.iRvec,\n                k_list=k_list,\n                num_wann=num_wann,\n                fftlib=\"slow\")\n",
      "        if k_list is not None and self.fft_R2k_set and self.fft_R_to_k.lib == \"slow_path\":\n            self.fft_R_to_k.k_list = k_list\n        elif k_list is not None:\n            self.fft_R_to_k = FFT_R_to_k(\n                iRvec=self.iRvec,\n                k_list=k_list,\n                num_wann=num_wann,\n                fftlib=\"slow\")\n",
      "fire", "R02.9"),
    V("stale grid-shift phase after re-configuration (seeded C02-m1)", RV,
      "        if self.fft_R_to_k.lib == \"slow_path\":\n            return XX_R", "        if getattr(self, 'expdK', None) is None:\n            return XX_R", "fire", "R02.3"),
    V("one-shot fancy-index placement (seeded C02-m2, simplified)", FF,
      "            for ir, irvec in enumerate(self.iRvec):\n                AAA_K[tuple(irvec)] += AAA_R[ir]",
      "            AAA_K[self.iRvec[:, 0], self.iRvec[:, 1], self.iRvec[:, 2]] = AAA_R", "fire", "R02.2"),
    V("fancy-index += does not accumulate duplicates either", FF,
      "            for ir, irvec in enumerate(self.iRvec):\n                AAA_K[tuple(irvec)] += AAA_R[ir]",
      "            AAA_K[self.iRvec[:, 0], self.iRvec[:, 1], self.iRvec[:, 2]] += AAA_R", "fire", "R02.2"),
    V("numpy back end uses the forward transform", FF, "AAA_K[...] = np.fft.ifftn(AAA_K, axes=(0, 1, 2))", "AAA_K[...] = np.fft.fftn(AAA_K, axes=(0, 1, 2))", "fire", "R02.1"),
    V("k-list exponent with the opposite sign", FF, "return np.exp(2j * np.pi * (self.k_list @ self.iRvec.T))", "return np.exp(-2j * np.pi * (self.k_list @ self.iRvec.T))",
      "fire", "R02.1"),
    V("Hermitisation only in the FFT branch", FF,
      "            self.transform(AAA_K)\n            AAA_K *= np.prod(self.NKFFT)\n\n        # TODO - think if fftlib transform of half of matrix makes sense\n        if hermitian:\n            AAA_K = 0.5 * (AAA_K + AAA_K.swapaxes(*self.axes_hermitean).conj())\n        elif antihermitean:",
      "            self.transform(AAA_K)\n            AAA_K *= np.prod(self.NKFFT)\n            if hermitian:\n                AAA_K = 0.5 * (AAA_K + AAA_K.swapaxes(*self.axes_hermitean).conj())\n\n        if False:\n            pass\n        elif antihermitean:",
      "fire", "R02.1"),
    V("FFT branch loses its normalisation", FF, "            AAA_K *= np.prod(self.NKFFT)\n", "", "fire", "R02.1"),
    V("FFTW plan adopts the caller's grid array (original defect)", FF, "        return self.fft_plan(np.copy(A))\n", "        return self.fft_plan(A)\n", "fire", "R02.6"),
    V("transform returns the plan's output buffer (seeded C02-m3)", FF, "                AAA_K[...] = self.execute_fft(AAA_K[...])\n            return AAA_K\n",
      "                return self.execute_fft(AAA_K[...])\n            return AAA_K\n", "fire", "R02.6", edits=[(FF, "            self.transform(AAA_K)\n", "            AAA_K = self.transform(AAA_K)\n")]),
    V("neutral: the private copy is made by the caller of execute_fft", FF, "        return self.fft_plan(np.copy(A))\n", "        return self.fft_plan(A)\n", "silent",
      edits=[(FF, "                AAA_K[...] = self.execute_fft(AAA_K[...])\n", "                AAA_K[...] = self.execute_fft(AAA_K.copy())\n")]),
    V("Data_K_R shares the system's Rvectors object (seeded C02-m4)", DKR, "self.rvec = system.rvec.copy()", "self.rvec = system.rvec", "fire", "R02.7"),
    V("neutral: the private copy is made through a named temporary", DKR, "            self.rvec = system.rvec.copy()\n", "            own_rvec = system.rvec.copy()\n            self.rvec = own_rvec\n", "silent"),
    V("derivative with −i", RV, "return 1j * XX_R.reshape((XX_R.shape) + (1,))", "return -1j * XX_R.reshape((XX_R.shape) + (1,))", "fire", "R02.4"),
    V("corner Hamiltonian not Hermitised", DKR, "            _HH_K = self.rvec.R_to_k(_Ham_R, hermitian=True)\n            _Ecorners[:, iv, :] = np.linalg.eigvalsh(_HH_K)",
      "            _HH_K = self.rvec.R_to_k(_Ham_R, hermitian=False)\n            _Ecorners[:, iv, :] = np.linalg.eigvalsh(_HH_K)", "fire", "R02.4"),
    V("fftw wrapper direction swapped", FF, "direction='FFTW_BACKWARD' if inverse else 'FFTW_FORWARD')", "direction='FFTW_FORWARD' if inverse else 'FFTW_BACKWARD')",
      "fire", "R02.5"),
    V("q→R uses the inverse transform", RV, "AA_q_mp = execute_fft(AA_q_mp, axes=(0, 1, 2), fftlib=self.fftlib_q2R, destroy=False) / np.prod(self.mp_grid)",
      "AA_q_mp = execute_fft(AA_q_mp, axes=(0, 1, 2), fftlib=self.fftlib_q2R, destroy=False, inverse=True) / np.prod(self.mp_grid)", "fire", "R02.5"),
    V("Hermitian axes of the box used for k-lists", FF, "            self.axes_hermitean = (1, 2)", "            self.axes_hermitean = (3, 4)", "fire", "R02.1"),
    V("K-shift phase with the opposite sign", RV, "self.expdK = np.exp(2j * np.pi * self.iRvec.dot(self.dK))", "self.expdK = np.exp(-2j * np.pi * self.iRvec.dot(self.dK))", "fire", "R02.3"),
    V("block of the previous R-vector placed", FF, "                AAA_K[tuple(irvec)] += AAA_R[ir]", "                AAA_K[tuple(irvec)] += AAA_R[ir - 1]", "fire", "R02.2"),
    V("neutral: box array renamed", FF, "AAA_K", "box_K", "silent", replace_all=True),
    V("neutral: exponent sign written as -(-2j)", FF, "return np.exp(2j * np.pi * (self.k_list @ self.iRvec.T))", "return np.exp(np.pi * 2j * (self.k_list @ self.iRvec.T))", "silent"),
    V("neutral: hermitisation as (A + A†)/2", FF, "AAA_K = 0.5 * (AAA_K + AAA_K.swapaxes(*self.axes_hermitean).conj())", "AAA_K = (AAA_K + AAA_K.swapaxes(*self.axes_hermitean).conj()) / 2", "silent"),
    V("neutral: HH_K relies on the hermitian=True default", DKR, "self.rvec.R_to_k(self.Ham_R, hermitian=True)", "self.rvec.R_to_k(self.Ham_R)", "silent"),
    V("neutral: mode test through a local", RV, "        if self.fft_R_to_k.lib == \"slow_path\":\n            return XX_R",
      "        if self.fft_R_to_k.lib in (\"slow_path\",):\n            return XX_R", "silent"),
]
