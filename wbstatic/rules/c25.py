"""C25 — spin doubling and spin-orbit assembly (structural clauses).

R25.1 spin-channel provenance: down-tagged targets are computed from down-tagged sources (and vice versa); the only
      accepted cross-channel form is aliasing under an `nspin == 1` / `… is None` guard or a simultaneous swap.
      Includes the owner rule of C33 for Data_K_soc.HH_K / Xbar (R-indexed arrays of one channel only).
R25.2 interlace convention: even indices ↔ up ↔ spin index 0, odd ↔ down ↔ 1, on both matrix axes, in every stride-2
      scatter of double_spin / SystemSOC / Data_K_soc; SOC blocks pair with the matching Pauli-matrix element.
R25.3 get_system_R adds Ham_SOC only to 'Ham' and maps each block through its own R-map (map resolved by def-use).
R25.4 the SOC strength alpha_soc reaches Ham_SOC linearly and unmodified (an explicit 0 is honoured).
"""
from __future__ import annotations

import ast
import re
from typing import Dict, List, Optional, Set

from ..index import AnalysisError, call_name, norm, norm1, names_in
from .c33 import check_owner_consistency
from .common import enclosing, enclosing_all, fctx, in_body, is_name, method_calls, stmts
from ..sem import Sem
from .interlace import doubled_from, stride_stores
from ..sem import reachable_helpers
from .spin import chain_parts, channel_of_name, stride2_slots, stride_offset

LEVEL = "other"
EXPLANATION = (
    "Channel tags (up/down) are read off identifiers (…_up/_down, data_K_up, system_down, …) and off stride-2 slots "
    "(::2 ↔ up, 1::2 ↔ down); every assignment whose target carries one channel must take its value from the same "
    "channel unless it is guarded aliasing for nspin == 1 / missing down channel or a simultaneous swap (the guarded "
    "sites are enumerated on each run). Stride-2 scatters must use the same offset on both matrix axes for diagonal "
    "blocks and pair off-diagonal blocks (a,b) with pauli_rotated[a,b]; double_spin registers spin pairs (2i, 2i+1), the "
    "same interlace. get_system_R's block assembly is checked against the order of merge_Rvectors' inputs. Not decided: "
    "spectra, and the Pauli algebra of the rotated matrices (numerical).")

DKS = "wannierberri/data_K/data_K_soc.py"
SOCS = "wannierberri/system/system_soc.py"
IP = "wannierberri/system/interpolate.py"
WDS = "wannierberri/w90files/wandata_soc.py"
SOCF = "wannierberri/w90files/soc.py"
SR = "wannierberri/system/system_R.py"
RV = "wannierberri/fourier/rvectors.py"

GUARD_BODY = re.compile(r"nspin\s*==\s*1|down is None|_down is None")
GUARD_ELSE = re.compile(r"is not None|nspin\s*==\s*2")


def _tags(e: ast.AST) -> Set[str]:
    t: Set[str] = set()
    for n in ast.walk(e):
        c = None
        if isinstance(n, ast.Attribute):
            c = channel_of_name(n.attr)
        elif isinstance(n, ast.Name):
            c = channel_of_name(n.id)
        elif isinstance(n, ast.keyword) and n.arg:
            c = None  # keyword names describe the callee's slot, not the data
        if c and not (isinstance(n, (ast.Attribute, ast.Name)) and _is_both(n)):
            t.add(c)
        if isinstance(n, ast.Subscript):
            sl = stride2_slots(n)
            if sl and all(isinstance(s, int) for s in sl) and len(set(sl)) == 1:
                t.add("up" if sl[0] == 0 else "down")
    return t


def _is_both(n) -> bool:
    name = n.attr if isinstance(n, ast.Attribute) else n.id
    return "up_down" in name or "down_up" in name or "_ud" in name or "_du" in name or "up_up" in name or "down_down" in name


def _guarded(pm, s: ast.stmt) -> Optional[str]:
    x = s
    while x in pm:
        p = pm[x]
        if isinstance(p, ast.If):
            t = norm(p.test)
            if x in p.body and GUARD_BODY.search(t):
                return f"if {t}"
            if x in p.orelse and GUARD_ELSE.search(t):
                return f"else of `if {t}`"
        x = p
    return None


def double_spin_rule(ctx, r2) -> None:
    """Every per-Wannier-function array is doubled with the even ↔ up / odd ↔ down interlace (shared with C05)."""
    idx = ctx.index
    ds = idx.function(SR, "System_R.double_spin")
    S = Sem(idx, ds)
    r2.instance(f"{ds.short}: matrices")
    sc = [c for c in method_calls(ds.node, "set_R_mat") if len(c.args) >= 2]
    if len(sc) != 1:
        r2.expect(False, "set_R_mat of the doubled matrix located", ds, ds.node, "double_spin: `self.set_R_mat(key, NEW, …)` not found exactly once")
    else:
        c = sc[0]
        lp = enclosing(S.pm, c, ast.For)
        keyv = norm(c.args[0])
        okloop = lp is not None and norm(lp.target) == keyv and norm(lp.iter) in ("self._XX_R", "self._XX_R.keys()", "list(self._XX_R)", "list(self._XX_R.keys())")
        offs, src, how = doubled_from(S, c.args[1], S.du.node_of_expr(c), 2)
        r2.check(okloop and offs == {(0, 0), (1, 1)} and src == f"self.get_R_mat({keyv})",
                 "every matrix: both spin copies at offsets (0,0) and (1,1), nothing in the spin-off-diagonal blocks", ds, c,
                 f"the doubled matrix is built as: {how} from `{src}` (over `{norm1(lp.iter) if lp is not None else None}`): the spin copies are not scattered at "
                 f"offsets (0,0) and (1,1) of every real-space matrix (slots {sorted(offs) if offs else offs}): original bands are not each doubled")
    r2.instance(f"{ds.short}: centres")
    cst = [s_ for s_ in stmts(ds.node) if isinstance(s_, ast.Assign) and norm(s_.targets[0]) == "self.wannier_centers_cart"]
    if not cst:
        r2.expect(False, "centre assignment located", ds, ds.node, "double_spin: assignment of self.wannier_centers_cart not found")
    else:
        last = cst[-1]
        v = last.value
        okc = False
        how = ""
        if (isinstance(v, ast.Call) and call_name(v) in ("np.repeat", "numpy.repeat")) or isinstance(v, ast.Subscript):
            offs, src, how = doubled_from(S, v, S.cfg.node(last), 1)
            src0 = src.split(".copy()")[0].split(".astype(")[0] if src is not None else None
            okc = offs == {(0,), (1,)} and src0 is not None and (src0 == "self.wannier_centers_cart" or src0.startswith(("np.array(self.wannier_centers_cart", "np.asarray(self.wannier_centers_cart",
                                                                                                                           "np.copy(self.wannier_centers_cart")))
        else:
            st_ = stride_stores(S, "self.wannier_centers_cart")
            offs = {o for _, o, _ in st_}
            srcs = {S.rnorm(vv, S.cfg.node(ss)) for ss, _, vv in st_}
            how = f"stride-2 stores at offsets {sorted(offs)} of {sorted(srcs)}"
            okc = offs == {(0,), (1,)} and srcs <= {"self.wannier_centers_cart.copy()", "np.copy(self.wannier_centers_cart)", "np.array(self.wannier_centers_cart)"} and len(srcs) == 1
        r2.check(okc, "centres: (c0, c0, c1, c1, …) — each centre at an even and the following odd position", ds, last,
                 f"the centres are doubled as: {how}: not every original centre appears at offsets 0 and 1 (interlaced)")
    pc = [c for c in method_calls(ds.node, "set_spin_pairs") if c.args]
    okp = False
    if not pc and any(norm(c_.func) == "self.set_spin_interlaced" and not c_.args for c_ in ast.walk(ds.node) if isinstance(c_, ast.Call)):
        # the pairs are registered by the sibling method written for exactly this layout: judge its list instead
        si = idx.function(SR, "System_R.set_spin_interlaced")
        S = Sem(idx, si)
        pc = [c for c in method_calls(si.node, "set_spin_pairs") if c.args]
    if len(pc) == 1 and isinstance(pc[0].args[0], ast.Name):
        d_pairs = S.du.single_def(pc[0].args[0].id, S.du.node_of_expr(pc[0]))
        if d_pairs is not None and d_pairs.kind == "assign" and isinstance(d_pairs.value, (ast.ListComp, ast.GeneratorExp)):
            pc[0].args[0] = d_pairs.value
    if len(pc) == 1 and isinstance(pc[0].args[0], (ast.ListComp, ast.GeneratorExp)) and len(pc[0].args[0].generators) == 1:
        lc = pc[0].args[0]
        g = lc.generators[0]
        if isinstance(lc.elt, ast.Tuple) and len(lc.elt.elts) == 2 and isinstance(g.target, ast.Name) and isinstance(g.iter, ast.Call) and call_name(g.iter) == "range":
            from ..algebra import Rat, to_rat
            v_ = g.target.id
            at = S.du.node_of_expr(pc[0])

            def env(x):
                if isinstance(x, ast.Name):
                    if x.id == v_:
                        return Rat.sym("v")
                    r_ = S.rnorm(x, at)
                    if r_.replace(" ", "") in ("self.num_wann//2", "int(self.num_wann/2)") and S.fi is not None and S.fi.name == "set_spin_interlaced":
                        return Rat.sym("N")       # in the sibling method num_wann is already the doubled count
                    return Rat.sym("N") if r_ == "self.num_wann" else Rat.sym(r_) if r_ == x.id else None
                if norm(x) == "self.num_wann":
                    return Rat.sym("N")
                return None
            try:
                a_, b_ = to_rat(lc.elt.elts[0], env), to_rat(lc.elt.elts[1], env)
                half_ = S.fi is not None and S.fi.name == "set_spin_interlaced"
                ra = [Rat.sym("N") if half_ and S.rnorm(x, at).replace(" ", "") in ("self.num_wann//2", "int(self.num_wann/2)") else to_rat(S.resolve(x, at), env)
                      for x in g.iter.args]
                two, one, zero, N, vv = Rat.const(2), Rat.const(1), Rat.const(0), Rat.sym("N"), Rat.sym("v")
                form1 = len(ra) == 1 and ra[0].equals(N) and a_.equals(two * vv) and b_.equals(two * vv + one)
                form2 = len(ra) == 3 and ra[0].equals(zero) and ra[1].equals(two * N) and ra[2].equals(two) and a_.equals(vv) and b_.equals(vv + one)
                okp = form1 or form2
            except AnalysisError:
                okp = False
    r2.check(okp, "spin pairs registered as (2i, 2i+1), i < number of spinless functions", ds, pc[0] if pc else ds.node,
             "double_spin registers spin pairs that do not follow the even/odd interlace it has just written", stmt="set_spin_pairs")
    r2.check(len([c for c in method_calls(ds.node, "double_spin") if norm(c.func.value) == "self.rvec"]) == 1 and bool(method_calls(ds.node, "clear_cached_wcc")),
             "centre shifts doubled and caches cleared", ds, ds.node, "double_spin does not double the R-vector shifts / clear cached centres", stmt="rvec.double_spin")
    rd = idx.function(RV, "Rvectors.double_spin")
    RS = Sem(idx, rd)
    for side in ("left", "right"):
        r2.instance(f"{rd.short}: shifts_{side}_red")
        att = f"self.shifts_{side}_red"
        asg = [s_ for s_ in stmts(rd.node) if isinstance(s_, ast.Assign) and norm(s_.targets[0]) == att]
        ok = False
        how = "no assignment"
        if asg:
            offs, src, how = doubled_from(RS, asg[-1].value, RS.cfg.node(asg[-1]), 1)
            src0 = src.split(".copy()")[0] if src is not None else None
            if src0 is not None:
                import re as _re
                m_w = _re.fullmatch(r"np\.(?:asarray|array|copy)\((.+?)(?:, dtype=\w+)?\)", src0)
                src0 = m_w.group(1) if m_w else src0
            ok = offs == {(0,), (1,)} and src0 == att
        r2.check(ok, f"{side} shifts doubled with the same interlace", rd, asg[-1] if asg else rd.node,
                 f"Rvectors.double_spin: `{att}` is doubled as: {how} — not each original shift at offsets 0 and 1")
    r2.check(bool([c for c in method_calls(rd.node, "clear_cached")]), "Rvectors.double_spin clears the cached R-vector quantities", rd, rd.node,
             "Rvectors.double_spin does not clear its caches", stmt="clear_cached")


def run(ctx) -> None:
    idx = ctx.index

    # ---------------------------------------------------------------- R25.1
    r1 = ctx.rule("R25.1", "spin-channel provenance (no unguarded cross-channel data flow)", min_instances=20)
    n_guarded = 0
    for rel in (DKS, SOCS, IP, WDS, SOCF):
        m = idx.module(rel)
        for f in list(m.functions.values()) + [mm for c in m.classes.values() for mm in c.methods.values()]:
            pm = None
            for s in stmts(f.node):
                if not isinstance(s, (ast.Assign, ast.AugAssign)):
                    continue
                tg = s.targets[0] if isinstance(s, ast.Assign) else s.target
                # simultaneous swap: (a_up, a_down) = (b_down, b_up)
                if isinstance(tg, ast.Tuple) and isinstance(s.value, ast.Tuple) and len(tg.elts) == len(s.value.elts) == 2:
                    tt = [_tags(e) for e in tg.elts]
                    vv = [_tags(e) for e in s.value.elts]
                    if all(len(x) == 1 for x in tt + vv):
                        r1.instance(f"{f.short}: {norm1(s, 70)}")
                        r1.check(tt[0] != tt[1] and vv[0] != vv[1], "tuple assignment keeps both channels (swap or identity)", f, s,
                                 f"`{norm1(s)}` assigns the same channel to both targets: one spin channel is lost")
                        r1.idiom("simultaneous swap of both channels")
                        continue
                if isinstance(tg, ast.Tuple):
                    continue
                a, b = _tags(tg), _tags(s.value)
                if len(a) != 1 or not b:
                    continue
                r1.instance(f"{f.short}: {norm1(s, 70)}")
                c = next(iter(a))
                if c in b:
                    r1.ok(f"{f.short}: {c} ← {sorted(b)}")
                    continue
                pm = pm or fctx(f)[2]
                g = _guarded(pm, s)
                if g is not None:
                    n_guarded += 1
                    r1.idiom(f"guarded aliasing at {f.short}: `{norm1(s, 60)}` under {g}")
                    r1.ok(f"{f.short}: cross-channel aliasing under guard {g}")
                else:
                    other = sorted(b)[0]
                    r1.violation(f, s, f"the `{c}` spin channel is computed from `{other}`-channel data (`{norm1(s.value, 70)}`) "
                                 f"without an `nspin == 1` / `… is None` guard: for spin-polarised systems the {c} channel "
                                 f"silently uses the {other} channel's data")
    r1.note(f"guarded cross-channel aliasing sites accepted on this run: {n_guarded}")
    # owner rule on the k-space assembly
    dks = idx.cls(DKS, "Data_K_soc")
    for mname in ("HH_K", "Xbar"):
        f = dks.methods.get(mname)
        if f is None:
            raise AnalysisError(f"Data_K_soc.{mname} vanished")
        check_owner_consistency(ctx, r1, f, want_slots=True)

    # ---------------------------------------------------------------- R25.2
    r2 = ctx.rule("R25.2", "interlace convention: even ↔ up ↔ 0, odd ↔ down ↔ 1, on both axes", min_instances=8)
    # (a) System_R.double_spin / Rvectors.double_spin
    double_spin_rule(ctx, r2)
    # (b) SystemSOC.set_soc_axis (and the private helpers it calls): block (a,b) ↔ pauli_rotated[a,b]
    f0 = idx.function(SOCS, "SystemSOC.set_soc_axis")
    n_soc = 0
    for f in [f0] + reachable_helpers(idx, f0):
        pm = fctx(f)[2]
        for s in stmts(f.node):
            if not (isinstance(s, ast.Assign) and isinstance(s.targets[0], ast.Subscript)):
                continue
            pauli = [n for n in ast.walk(s.value) if isinstance(n, ast.Subscript) and isinstance(n.value, ast.Name) and "pauli" in n.value.id.lower()]
            if not pauli:
                continue
            tg = s.targets[0]
            elts = tg.slice.elts if isinstance(tg.slice, ast.Tuple) else [tg.slice]
            slots = []
            for e in elts:
                o = stride_offset(e)
                if o is not None:
                    slots.append(str(o))
                    continue
                # `rng` / `rng + a` index form: offset a relative to the even positions
                if isinstance(e, ast.Name) and e.id == "rng":
                    slots.append("0")
                elif isinstance(e, ast.BinOp) and isinstance(e.op, ast.Add) and isinstance(e.left, ast.Name) and e.left.id == "rng":
                    slots.append(norm(e.right))
            if len(slots) != 2:
                continue
            n_soc += 1
            r2.instance(f"{f.short}: {norm1(s, 80)}")
            pe = pauli[0].slice.elts if isinstance(pauli[0].slice, ast.Tuple) else [pauli[0].slice]
            pidx = [norm(e) for e in pe if not (isinstance(e, ast.Constant) and e.value is None) and not isinstance(e, ast.Slice)][:2]
            r2.check(pidx == slots, f"block {slots} ↔ pauli_rotated{pidx}", f, s,
                     f"the spin block with offsets {slots} is filled with pauli_rotated{pidx}: the SOC/spin matrix element is placed "
                     f"in the wrong spin block")
            keys = re.findall(r"dV_soc_wann_(\d)_(\d)", norm(s.value))
            two_spin = any(isinstance(p, ast.If) and "nspin == 2" in norm(p.test) and in_body(p.body, s) for p in enclosing_all(pm, s, ast.If))
            if keys and two_spin:
                r2.check(list(keys[0]) == slots, f"block {slots} uses dV_soc_wann_{keys[0][0]}_{keys[0][1]}", f, s,
                         f"block {slots} is built from dV_soc_wann_{keys[0][0]}_{keys[0][1]}")
            if slots == ["1", "0"] and two_spin and "soc" in norm(tg.value).lower() and "SS" not in norm(tg.value):
                r2.check("conj_XX_R" in norm(s.value), "the (down, up) block is the conjugate of the (up, down) block", f, s,
                         "the (1,0) block is not built from conj_XX_R of the (0,1) block: Ham_SOC is not Hermitian")
        # a spin-block table {(s1, s2): matrix}: key ↔ dV_soc_wann_s1_s2, (1,0) is the conjugate of (0,1)
        for s in stmts(f.node):
            if isinstance(s, ast.Assign) and isinstance(s.targets[0], ast.Subscript) and isinstance(s.targets[0].slice, ast.Tuple) \
                    and all(isinstance(e, ast.Constant) and e.value in (0, 1) for e in s.targets[0].slice.elts) and len(s.targets[0].slice.elts) == 2:
                key = [str(e.value) for e in s.targets[0].slice.elts]
                S_ = Sem(idx, f)
                vt = S_.rnorm(s.value, S_.cfg.node(s))
                kk = re.findall(r"dV_soc_wann_(\d)_(\d)", vt)
                two_spin = any(isinstance(p, ast.If) and "nspin == 2" in norm(p.test) and in_body(p.body, s) for p in enclosing_all(pm, s, ast.If))
                if kk and two_spin:
                    n_soc += 1
                    r2.instance(f"{f.short}: {norm1(s, 80)}")
                    want = key if key != ["1", "0"] else ["0", "1"]
                    r2.check(list(kk[0]) == want and (key != ["1", "0"] or "conj_XX_R" in vt), f"spin block {key} ← dV_soc_wann_{kk[0][0]}_{kk[0][1]}", f, s,
                             f"spin block {key} of the SOC table is built from dV_soc_wann_{kk[0][0]}_{kk[0][1]}" + ("" if key != ["1", "0"] else " without conj_XX_R"))
    r2.expect(n_soc >= 3, f"SOC / spin block stores located ({n_soc})", f0, f0.node, "set_soc_axis: the stores of the Pauli-matrix blocks were not found")
    # (c) Data_K_soc / get_system_R: channel ↔ slot
    for rel, q in ((DKS, "Data_K_soc.HH_K"), (SOCS, "SystemSOC.get_system_R"), (SOCS, "SystemSOC.__init__"), (SOCS, "SystemSOC.symmetrize2")):
        f = idx.function(rel, q)
        for s in stmts(f.node):
            if isinstance(s, (ast.Assign, ast.AugAssign)):
                tg = s.targets[0] if isinstance(s, ast.Assign) else s.target
                if isinstance(tg, ast.Subscript):
                    sl = stride2_slots(tg)
                    vt = {channel_of_name(p) for n in ast.walk(s.value) if isinstance(n, (ast.Attribute, ast.Name))
                          for p in [n.attr if isinstance(n, ast.Attribute) else n.id] if channel_of_name(p)}
                    if sl and all(isinstance(x, int) for x in sl) and len(vt) == 1:
                        r2.instance(f"{f.short}: {norm1(s, 70)}")
                        c = next(iter(vt))
                        want = 0 if c == "up" else 1
                        r2.check(all(x == want for x in sl), f"{c} data → offset {want} on every Wannier axis", f, s,
                                 f"`{norm1(s)}`: {c}-channel data are written at offsets {sl} (convention: up = even, down = odd, "
                                 f"same on both axes)")

    # ---------------------------------------------------------------- R25.3
    r3 = ctx.rule("R25.3", "get_system_R: SOC added to 'Ham' only; blocks mapped through their own R-map", min_instances=5)
    f = idx.function(SOCS, "SystemSOC.get_system_R")
    from ..sem import inline_private_helpers as _iph
    from .memo import check_memo_results_not_mutated as _cmm
    if _cmm(r3, idx, idx.cls(SOCS, "SystemSOC")) == 0:
        r3.ok("no in-place update of an object handed out by a caching method of SystemSOC")
    f = _iph(idx, f)
    cfg, du, pm = fctx(f)
    r3.instance(f.short)
    mr = [c for c in ast.walk(f.node) if isinstance(c, ast.Call) and call_name(c) == "merge_Rvectors"]
    if len(mr) != 1 or not mr[0].args or not isinstance(mr[0].args[0], ast.List):
        raise AnalysisError("get_system_R: merge_Rvectors([...]) call not found")
    mst = enclosing(pm, mr[0], ast.stmt)
    GS3 = Sem(idx, f)
    if not (isinstance(mst, ast.Assign) and isinstance(mst.targets[0], ast.Tuple) and len(mst.targets[0].elts) == 2
            and isinstance(mst.targets[0].elts[0], ast.Name) and mst.value is mr[0]):
        raise AnalysisError("get_system_R: `merged, maps = merge_Rvectors([...])` form not recognised")
    direct_pos: Dict[str, int] = {}
    t1 = mst.targets[0].elts[1]
    if isinstance(t1, ast.Name):
        maplist = t1.id
    elif isinstance(t1, (ast.Tuple, ast.List)) and all(isinstance(e, ast.Name) for e in t1.elts):
        maplist = "<unpacked>"
        direct_pos = {e.id: j for j, e in enumerate(t1.elts)}
    else:
        raise AnalysisError("get_system_R: `merged, maps = merge_Rvectors([...])` form not recognised")
    order = [GS3.rnorm(e, cfg.node(mst)) for e in mr[0].args[0].elts]
    want_owner = {"self.rvec": "soc", "self.system_up.rvec": "up", "self.system_down.rvec": "down"}
    pos = {want_owner.get(o): i for i, o in enumerate(order)}
    r3.expect(set(pos) == {"soc", "up", "down"}, f"merge_Rvectors inputs {order} are the SOC, up and down R-vector sets", f, mst,
              f"merge_Rvectors inputs {order} are not recognised as the three owners' R-vector sets")

    def map_position(e: ast.AST, at: int, depth: int = 4) -> Optional[int]:
        """Which entry of merge_Rvectors' map list does `e` denote (constant subscript, tuple-unpack position, alias)?"""
        if depth == 0:
            return None
        if isinstance(e, ast.Subscript) and isinstance(e.slice, ast.Constant) and isinstance(e.slice.value, int):
            b_ = du.resolve_local(e.value, at)
            if isinstance(b_, ast.Name) and b_.id == maplist:
                return e.slice.value
            return None
        if isinstance(e, ast.Name):
            d = du.single_def(e.id, at)
            if d is None or d.value is None:
                return None
            if e.id in direct_pos and d.stmt is mst:
                return direct_pos[e.id]
            if d.kind == "unpack":
                v = du.resolve_local(d.value, d.node)
                if isinstance(v, ast.Name) and v.id == maplist:
                    return d.index
                return None
            if d.kind == "assign":
                return map_position(d.value, d.node, depth - 1)
        return None

    seen_owner: Dict[str, int] = {}
    for s in stmts(f.node):
        if not isinstance(s, (ast.AugAssign, ast.Assign)):
            continue
        tg = s.target if isinstance(s, ast.AugAssign) else s.targets[0]
        gets = [c for c in method_calls(s.value, "get_R_mat")]
        if not (isinstance(tg, ast.Subscript) and gets):
            continue
        owners = set()
        for c in gets:
            recv = GS3.rnorm(c.func.value, cfg.node(s))
            owners.add("up" if recv == "self.system_up" else "down" if recv == "self.system_down" else "soc" if recv == "self" else recv)
        r3.instance(f"{f.short}: {norm1(s, 80)}")
        if len(owners) != 1 or next(iter(owners)) not in pos:
            r3.expect(False, "one owner per block store", f, s, f"`{norm1(s)}`: cannot tell whose matrices are stored ({sorted(owners)})")
            continue
        owner = next(iter(owners))
        first = tg.slice.elts[0] if isinstance(tg.slice, ast.Tuple) else tg.slice
        at = cfg.node(s)
        mi = map_position(first, at)
        if mi is None:
            r3.expect(False, "R index of the block store resolves to an entry of the merge map list", f, s,
                      f"`{norm1(s)}`: the R index `{norm1(first)}` is not an entry of `{maplist}` that def-use can resolve")
            continue
        seen_owner[owner] = seen_owner.get(owner, 0) + 1
        r3.check(pos.get(owner) == mi, f"{owner} block re-indexed with map #{mi} (its own input position in merge_Rvectors)", f, s,
                 f"`{norm1(s)}`: the {owner} matrices are re-indexed with the R-map of input #{mi} of merge_Rvectors {order}, which "
                 f"belongs to `{order[mi] if mi < len(order) else '?'}`: the block lands on the wrong lattice vectors whenever the "
                 f"R-vector sets differ")
        if any(isinstance(c.args[0], ast.Constant) and c.args[0].value == "Ham_SOC" for c in gets if c.args):
            g = enclosing(pm, s, ast.If)
            r3.check(g is not None and norm(g.test) in ("key == 'Ham'", "'Ham' == key") and in_body(g.body, s),
                     "Ham_SOC is added to the Hamiltonian only", f, s, "Ham_SOC is added to matrices other than 'Ham'")
    r3.expect(seen_owner.get("up", 0) >= 1 and seen_owner.get("down", 0) >= 1 and seen_owner.get("soc", 0) >= 2,
              f"block stores found per owner: {seen_owner}", f, f.node,
              f"get_system_R: expected block stores for up, down and soc (Ham_SOC, SS); found {seen_owner}")
    merged_name = mst.targets[0].elts[0].id
    GS_ = Sem(idx, f)
    GS_.keep_names = {merged_name}
    okwcc = okrv = False
    for s_ in stmts(f.node):
        if isinstance(s_, ast.Assign) and len(s_.targets) == 1 and isinstance(s_.targets[0], ast.Attribute) and isinstance(s_.targets[0].value, ast.Name):
            tv = GS_.rnorm(s_.value, GS_.cfg.node(s_))
            if s_.targets[0].attr == "wannier_centers_cart" and tv in ("self.wannier_centers_cart.copy()", "np.copy(self.wannier_centers_cart)",
                                                                      "np.array(self.wannier_centers_cart)", "self.wannier_centers_cart"):
                okwcc = True
            if s_.targets[0].attr == "rvec" and tv == merged_name:
                okrv = True
    r3.check(okwcc and okrv, "the plain system gets the merged R-vectors and the interlaced centres", f, f.node,
             "get_system_R no longer transfers centres / merged R-vectors", stmt="centres+rvec")

    # ---------------------------------------------------------------- R25.5
    # the quantisation axis (theta, phi): an angle may be reduced modulo a full turn only — folding phi modulo π maps the axis onto its mirror image
    r5 = ctx.rule("R25.5", "spin-axis angles are never reduced by anything but a full turn")
    n_ang = 0
    for f_ in idx.all_functions():
        if f_.module.relpath not in ("wannierberri/w90files/soc.py", SOCS):
            continue
        angs = [p_ for p_ in f_.params if p_ in ("theta", "phi")]
        if not angs:
            continue
        n_ang += 1
        r5.instance(f"{f_.short}({', '.join(angs)})")
        # unit typestate: once an angle parameter has been converted to radians it must not travel together with the caller's unit tag
        up_ = next((p_ for p_ in f_.params if p_ == "units"), None)
        if up_ is not None:
            conv_ = {}
            for st_ in ast.walk(f_.node):
                if isinstance(st_, ast.Assign):
                    pairs_ = list(zip(st_.targets[0].elts, st_.value.elts)) if isinstance(st_.targets[0], ast.Tuple) and isinstance(st_.value, ast.Tuple) \
                        and len(st_.targets[0].elts) == len(st_.value.elts) else [(st_.targets[0], st_.value)]
                    for t_, v_ in pairs_:
                        tv_ = norm(v_).replace(" ", "")
                        if isinstance(t_, ast.Name) and t_.id in angs and t_.id in {n_.id for n_ in ast.walk(v_) if isinstance(n_, ast.Name)} and \
                                (any(isinstance(c_, ast.Call) and call_name(c_).split(".")[-1] in ("deg2rad", "radians") for c_ in ast.walk(v_)) or "pi/180" in tv_ or "/180" in tv_):
                            conv_[t_.id] = st_
            for c_ in ast.walk(f_.node):
                if isinstance(c_, ast.Call) and any(k_.arg == "units" and isinstance(k_.value, ast.Name) and k_.value.id == up_ for k_ in c_.keywords):
                    passed_ = [a_ for a_ in list(c_.args) + [k_.value for k_ in c_.keywords] if isinstance(a_, ast.Name) and a_.id in conv_
                               and conv_[a_.id].lineno < c_.lineno]
                    for a_ in passed_:
                        r5.violation(f_, c_, f"`{norm1(c_, 90)}` forwards `units={up_}` together with `{a_.id}`, which `{norm1(conv_[a_.id])}` has already converted to "
                                     f"radians: with units='degrees' the angle is converted twice and the spin axis used for the SOC term is not the requested one")
        for b_ in ast.walk(f_.node):
            if isinstance(b_, ast.BinOp) and isinstance(b_.op, ast.Mod) and isinstance(b_.left, ast.Name) and b_.left.id in angs:
                t_ = norm(b_.right).replace(" ", "").replace("numpy", "np").replace("math.pi", "np.pi")
                full = t_ in ("2*np.pi", "(2*np.pi)", "np.pi*2", "2.0*np.pi", "(2.0*np.pi)", "360", "360.0", "2*pi", "(2*pi)")
                r5.check(full, f"`{norm1(b_)}` reduces by a full turn", f_, b_,
                         f"`{norm1(b_)}` folds the angle `{b_.left.id}` modulo `{norm1(b_.right)}`, which is not a full turn: axes that differ by that angle are "
                         f"different quantisation axes, so Pauli matrices / SOC terms are built for another axis than the one requested")
    r5.expect(n_ang >= 1, "functions taking the spin-axis angles located", SOCS, None, "no function with parameters theta / phi found in soc.py / system_soc.py")

    # ---------------------------------------------------------------- R25.4
    r4 = ctx.rule("R25.4", "alpha_soc reaches Ham_SOC as given (explicit 0 switches SOC off)", min_instances=3)
    f = idx.function(SOCS, "SystemSOC.set_soc_axis")
    cfg, du, pm = fctx(f)
    sets = [c for c in method_calls(f.node, "set_R_mat") if c.args and isinstance(c.args[0], ast.Constant) and c.args[0].value == "Ham_SOC"]
    r4.expect(len(sets) == 1 and len(sets[0].args) >= 2, "set_soc_axis stores Ham_SOC once", f, f.node, "set_soc_axis: the single set_R_mat('Ham_SOC', …) call was not found")
    if len(sets) == 1 and len(sets[0].args) >= 2:
        c = sets[0]
        r4.instance(f"{f.short}: {norm1(c, 80)}")
        at = du.node_of_expr(c)
        exprs, params, defs = du.backward_slice(c.args[1], at)
        r4.check("alpha_soc" in params, "the stored Ham_SOC depends on the parameter alpha_soc", f, enclosing(pm, c, ast.stmt),
                 "the Ham_SOC that is stored does not depend on the alpha_soc argument: the requested SOC scaling is ignored")
        v = du.resolve_local(c.args[1], at)
        lin = False
        if isinstance(v, ast.BinOp) and isinstance(v.op, ast.Mult):
            for side, other in ((v.left, v.right), (v.right, v.left)):
                if isinstance(side, ast.Name) and side.id == "alpha_soc" and \
                        "alpha_soc" not in du.backward_slice(other, du.node_of_expr(v))[1] | {n.id for n in ast.walk(other) if isinstance(n, ast.Name)}:
                    lin = True
        r4.check(lin, "Ham_SOC = (unscaled SOC) * alpha_soc", f, enclosing(pm, c, ast.stmt),
                 f"Ham_SOC is stored as `{norm1(v)}`, not as the unscaled SOC matrix times alpha_soc")
        # every redefinition of alpha_soc that reaches the product must sit under an `is None` test, never a truthiness / == test
        for d in du.reaching("alpha_soc", at):
            if d.kind == "param":
                continue
            st_ = d.stmt
            guards = enclosing_all(pm, st_, ast.If)
            ok_g = any(norm(g.test) == "alpha_soc is None" and in_body(g.body, st_) for g in guards)
            r4.check(ok_g, "alpha_soc is replaced only when it was not given (is None)", f, st_,
                     f"`{norm1(st_)}` replaces the caller's alpha_soc under "
                     f"`{norm1(guards[0].test) if guards else 'no condition'}`: a value the caller passed explicitly (e.g. alpha_soc=0, SOC "
                     f"switched off) is overridden")
    # the constructors hand alpha_soc through
    for q in ("SystemSOC.from_wannierdata", "SystemSOC.set_soc_R"):
        try:
            g_ = idx.function(SOCS, q)
        except AnalysisError:
            continue
        for c in method_calls(g_.node, "set_soc_axis"):
            r4.instance(f"{g_.short}: {norm1(c, 70)}")
            kw = {k.arg: k.value for k in c.keywords}
            r4.check("alpha_soc" in kw and is_name(kw["alpha_soc"], "alpha_soc") and "alpha_soc" in g_.params
                     and not [d for d in fctx(g_)[1].reaching("alpha_soc", fctx(g_)[1].node_of_expr(c)) if d.kind != "param"],
                     f"{q} forwards its alpha_soc parameter unchanged", g_, enclosing(fctx(g_)[2], c, ast.stmt),
                     f"{q} does not forward the caller's alpha_soc to set_soc_axis unchanged")


from ..selftest import V  # noqa: E402

SELFTEST = [
    V("converted angles forwarded together with the unit tag (seeded C25-m6)", SOCS, "        pauli_rotated = SOC.get_pauli_rotated(theta=theta, phi=phi)\n",
      "        pauli_rotated = SOC.get_pauli_rotated(theta=theta, phi=phi, units=units)\n", "fire", "R25.5"),
    V("azimuth of the spin axis folded modulo pi (seeded C25-m4)", "wannierberri/w90files/soc.py", "    def get_C_ss(cls, theta=0, phi=0):\n", "    def get_C_ss(cls, theta=0, phi=0):\n        phi = phi % np.pi\n", "fire", "R25.5"),
    V("neutral: azimuth reduced by a full turn", "wannierberri/w90files/soc.py", "    def get_C_ss(cls, theta=0, phi=0):\n", "    def get_C_ss(cls, theta=0, phi=0):\n        phi = phi % (2 * np.pi)\n", "silent"),
    V("down block of HH_K taken from the up channel", DKS, "H[:, 1::2, 1::2] = self.data_K_down.HH_K", "H[:, 1::2, 1::2] = self.data_K_up.HH_K",
      "fire", "R25.1"),
    V("down centres copied from the up system in SystemSOC.__init__", SOCS,
      "        self.wannier_centers_cart[1::2] = self.system_down.wannier_centers_cart\n\n        self.pointgroup",
      "        self.wannier_centers_cart[1::2] = self.system_up.wannier_centers_cart\n\n        self.pointgroup", "fire", "R25.1"),
    V("Xbar transforms both channels with the up R-vectors", DKS, "Xbar[:, i::2, i::2] = datak.rvec.R_to_k(datak.get_R_mat(name).copy(),",
      "Xbar[:, i::2, i::2] = self.data_K_up.rvec.R_to_k(datak.get_R_mat(name).copy(),", "fire", "R25.1"),
    V("down system built from the up wannier data", SOCS, "system_down = System_R.from_wannierdata(wandata=wandata.data_down, **kwargs)",
      "system_down = System_R.from_wannierdata(wandata=wandata.data_up, **kwargs)", "fire", "R25.1"),
    V("double_spin scatters rows and columns at different offsets", SR, "XX_new[:, i::2, i::2] = XX", "XX_new[:, i::2, (1 - i)::2] = XX",
      "fire", "R25.2"),
    V("double_spin writes only the even copy of the centres", SR,
      "        for i in range(2):\n            self.wannier_centers_cart[i::2] = wannier_centers_cart_old",
      "        for i in range(1):\n            self.wannier_centers_cart[i::2] = wannier_centers_cart_old", "fire", "R25.2"),
    V("spin pairs registered block-wise", SR, "self.set_spin_pairs([(2 * i, 2 * i + 1) for i in range(num_wann_old)])",
      "self.set_spin_pairs([(i, i + num_wann_old) for i in range(num_wann_old)])", "fire", "R25.2"),
    V("(up,down) SOC block filled with the (down,up) Pauli element", SOCS,
      "soc_R_W[:, ::2, 1::2] = cached_einsum(\"rmnc,c->rmn\", dV01, pauli_rotated[0, 1, :])",
      "soc_R_W[:, ::2, 1::2] = cached_einsum(\"rmnc,c->rmn\", dV01, pauli_rotated[1, 0, :])", "fire", "R25.2"),
    V("spin operator: down diagonal uses the up Pauli element", SOCS,
      "SS_R_W[iR0, rng + 1, rng + 1, :] = pauli_rotated[None, 1, 1, None, None, :]",
      "SS_R_W[iR0, rng + 1, rng + 1, :] = pauli_rotated[None, 0, 0, None, None, :]", "fire", "R25.2"),
    V("get_system_R maps the down block with the up R-map", SOCS, "matrix[rvectors_map_list[2], 1::2, 1::2] += self.system_down.get_R_mat(key)",
      "matrix[rvectors_map_list[1], 1::2, 1::2] += self.system_down.get_R_mat(key)", "fire", "R25.3"),
    V("Ham_SOC added to every matrix", SOCS, "            if key == 'Ham':\n                matrix[rvectors_map_list[0]] += self.get_R_mat('Ham_SOC')",
      "            if True:\n                matrix[rvectors_map_list[0]] += self.get_R_mat('Ham_SOC')", "fire", "R25.3"),
    V("seeded C25-m1: maps unpacked into locals, down block re-indexed with the up map", SOCS,
      "            matrix[rvectors_map_list[1], ::2, ::2] += self.system_up.get_R_mat(key)\n            matrix[rvectors_map_list[2], 1::2, 1::2] += self.system_down.get_R_mat(key)",
      "            map_soc, map_up, map_down = rvectors_map_list\n            matrix[map_up, ::2, ::2] += self.system_up.get_R_mat(key)\n            matrix[map_up, 1::2, 1::2] += self.system_down.get_R_mat(key)",
      "fire", "R25.3"),
    V("neutral: maps unpacked into locals, each block with its own map", SOCS,
      "            matrix[rvectors_map_list[1], ::2, ::2] += self.system_up.get_R_mat(key)\n            matrix[rvectors_map_list[2], 1::2, 1::2] += self.system_down.get_R_mat(key)",
      "            map_soc, map_up, map_down = rvectors_map_list\n            matrix[map_up, ::2, ::2] += self.system_up.get_R_mat(key)\n            matrix[map_down, 1::2, 1::2] += self.system_down.get_R_mat(key)",
      "silent"),
    V("merge inputs reordered, block stores not adapted", SOCS,
      "merge_Rvectors([self.rvec, self.system_up.rvec, self.system_down.rvec])", "merge_Rvectors([self.system_up.rvec, self.rvec, self.system_down.rvec])",
      "fire", "R25.3"),
    V("seeded C25-m2: falsy alpha_soc replaced by a remembered value", SOCS,
      "        self.set_R_mat('Ham_SOC', soc_R_W * alpha_soc, reset=True)",
      "        if not alpha_soc:\n            alpha_soc = getattr(self, '_alpha_soc', 1.0)\n        self._alpha_soc = alpha_soc\n        self.set_R_mat('Ham_SOC', soc_R_W * alpha_soc, reset=True)",
      "fire", "R25.4"),
    V("alpha_soc not applied", SOCS, "        self.set_R_mat('Ham_SOC', soc_R_W * alpha_soc, reset=True)",
      "        self.set_R_mat('Ham_SOC', soc_R_W, reset=True)", "fire", "R25.4"),
    V("alpha_soc applied twice", SOCS, "        self.set_R_mat('Ham_SOC', soc_R_W * alpha_soc, reset=True)",
      "        self.set_R_mat('Ham_SOC', soc_R_W * alpha_soc * alpha_soc, reset=True)", "fire", "R25.4"),
    V("from_wannierdata drops alpha_soc", SOCS, "system_soc.set_soc_axis(theta=theta, phi=phi, alpha_soc=alpha_soc)",
      "system_soc.set_soc_axis(theta=theta, phi=phi)", "fire", "R25.4"),
    V("neutral: alpha_soc defaulted only when None", SOCS, "        self.set_R_mat('Ham_SOC', soc_R_W * alpha_soc, reset=True)",
      "        if alpha_soc is None:\n            alpha_soc = 1.0\n        self.set_R_mat('Ham_SOC', soc_R_W * alpha_soc, reset=True)", "silent"),
    V("neutral: explicit up/down loop unrolled in HH_K order", DKS, "        H[:, ::2, ::2] = self.data_K_up.HH_K\n        H[:, 1::2, 1::2] = self.data_K_down.HH_K",
      "        H[:, 1::2, 1::2] = self.data_K_down.HH_K\n        H[:, ::2, ::2] = self.data_K_up.HH_K", "silent"),
]
