"""Shared semantic recognisers for "trace over a whole degenerate group" (used by C04, C15, C30)."""
from __future__ import annotations

import ast
from typing import Dict, List, Optional, Tuple

from ..index import AnalysisError, FunctionInfo, call_name, norm, norm1
from ..sem import Built, Sem, built_container, reachable_helpers
from .common import enclosing, enclosing_all, fctx, method_calls, pmatch


def trace_sites(idx, f: FunctionInfo) -> List[Tuple[Sem, FunctionInfo, ast.Call]]:
    """`<formula>.trace(ik, inn, out)` calls in f and in the private helpers it calls."""
    out = []
    for g in [f] + reachable_helpers(idx, f):
        S = None
        for c in method_calls(g.node, "trace"):
            if len(c.args) == 3 and not c.keywords:
                S = S or Sem(idx, g)
                out.append((S, g, c))
    return out


def classify_trace(S: Sem, c: ast.Call) -> Dict[str, object]:
    """kind: 'group' (inn = arange(P, Q), out = complement), 'sea' (inn = arange(0, N), out = arange(N, NB)) or 'other'."""
    at = S.du.node_of_expr(c)
    inn = S.resolve(c.args[1], at)
    out = S.resolve(c.args[2], at)
    inn, out = _canon_band_sets(inn, out)
    res: Dict[str, object] = {"kind": "other", "inn": norm(inn), "out": norm(out)}
    m = pmatch(inn, "np.arange(P, Q)", {"P", "Q"})
    if m and m[0][0] is inn:
        P, Q = m[0][1]["P"], m[0][1]["Q"]
        for pat in ("np.concatenate((np.arange(0, P), np.arange(Q, NBX)))", "np.concatenate([np.arange(0, P), np.arange(Q, NBX)])",
                    "np.concatenate((np.arange(P), np.arange(Q, NBX)))", "np.hstack((np.arange(0, P), np.arange(Q, NBX)))",
                    "np.r_[0:P, Q:NBX]"):
            mo = pmatch(out, pat, {"P", "Q", "NBX"}, {"P": P, "Q": Q})
            if mo and mo[0][0] is out:
                res.update(kind="group" if P != "0" else "sea", P=P, Q=Q, NB=mo[0][1]["NBX"])
                return res
        mo = pmatch(out, "np.arange(Q, NBX)", {"Q", "NBX"}, {"Q": Q})
        if P == "0" and mo and mo[0][0] is out:
            res.update(kind="sea", P=P, Q=Q, NB=mo[0][1]["NBX"])
    return res


def _canon_band_sets(inn: ast.AST, out: ast.AST):
    """(inn, out) rewritten to the arange forms when they are selections from one np.arange(NB):
         A[(A >= P) & (A < Q)] , A[~(…)]   →  np.arange(P, Q) , np.concatenate((np.arange(0, P), np.arange(Q, NB)))
         A[:N] , A[N:]                      →  np.arange(0, N) , np.arange(N, NB)"""
    def arange_n(x):
        return norm(x.args[0]) if isinstance(x, ast.Call) and call_name(x) in ("np.arange", "numpy.arange") and len(x.args) == 1 and not x.keywords else None
    if not (isinstance(inn, ast.Subscript) and isinstance(out, ast.Subscript) and norm(inn.value) == norm(out.value) and arange_n(inn.value) is not None):
        return inn, out
    NB = arange_n(inn.value)
    A = norm(inn.value)
    mi, mo = inn.slice, out.slice
    if isinstance(mi, ast.Slice) and isinstance(mo, ast.Slice) and mi.lower is None and mi.upper is not None and mi.step is None \
            and mo.upper is None and mo.lower is not None and mo.step is None and norm(mi.upper) == norm(mo.lower):
        n_ = norm(mi.upper)
        return ast.parse(f"np.arange(0, {n_})", mode="eval").body, ast.parse(f"np.arange({n_}, {NB})", mode="eval").body
    neg = mo.operand if isinstance(mo, ast.UnaryOp) and isinstance(mo.op, ast.Invert) else None
    if neg is not None and norm(neg) == norm(mi) and isinstance(mi, ast.BinOp) and isinstance(mi.op, ast.BitAnd):
        lo = hi = None
        for t in (mi.left, mi.right):
            if isinstance(t, ast.Compare) and len(t.ops) == 1 and norm(t.left) == A:
                if isinstance(t.ops[0], ast.GtE):
                    lo = norm(t.comparators[0])
                elif isinstance(t.ops[0], ast.Lt):
                    hi = norm(t.comparators[0])
        if lo is not None and hi is not None:
            return ast.parse(f"np.arange({lo}, {hi})", mode="eval").body, \
                ast.parse(f"np.concatenate((np.arange(0, {lo}), np.arange({hi}, {NB})))", mode="eval").body
    return inn, out


def same_group(P: str, Q: str) -> Optional[str]:
    """G if (P, Q) = (G[0], G[1]) textually, else None."""
    if P.endswith("[0]") and Q.endswith("[1]") and P[:-3] == Q[:-3]:
        return P[:-3]
    return None


def check_group_trace(rule, idx, f: FunctionInfo, allow_sea: bool = True, min_sites: int = 1) -> List[Dict[str, object]]:
    sites = trace_sites(idx, f)
    rule.expect(len(sites) >= min_sites, f"{f.qualname}: trace call(s) located", f, f.node, f"{f.qualname}: no `formula.trace(ik, inn, out)` call found")
    infos = []
    for S, g, c in sites:
        info = classify_trace(S, c)
        info["call"], info["sem"], info["func"] = c, S, g
        infos.append(info)
        st = enclosing(S.pm, c, ast.stmt)
        ok = False
        if info["kind"] == "group":
            sg = same_group(str(info["P"]), str(info["Q"])) is not None
            if not sg:
                # P, Q are the two elements of one tuple target `for P, Q in groups` (loop or comprehension generator)
                x = c
                while x in S.pm and not sg:
                    x = S.pm[x]
                    tgts = [x.target] if isinstance(x, ast.For) else [g_.target for g_ in x.generators] if isinstance(x, (ast.ListComp, ast.GeneratorExp, ast.DictComp, ast.SetComp)) else []
                    sg = any(isinstance(t_, ast.Tuple) and [norm(e_) for e_ in t_.elts] == [str(info["P"]), str(info["Q"])] for t_ in tgts)
                if not sg:
                    raw = [norm(a_) for a_ in c.args[1:]]
            ok = sg and str(info["NB"]).endswith(".num_wann")
        elif info["kind"] == "sea":
            ok = allow_sea and str(info["NB"]).endswith(".num_wann")
        rule.check(ok, f"{g.qualname}: trace over inn = one whole group [n0, n1) (or the occupied manifold [0, n)), out = its complement up to num_wann", g, st,
                   f"{g.qualname} traces the formula over inn = `{str(info['inn'])[:90]}`, out = `{str(info['out'])[:110]}`: not exactly one whole degenerate "
                   f"group (inn = arange(n0, n1)) with all other bands as outer states: a partial trace inside a degenerate subspace depends on the "
                   f"arbitrary eigenvector basis chosen there", stmt="trace over whole group")
    return infos


def band_to_group_builder(idx, f: FunctionInfo, S: Sem, group_expr: ast.AST, at: int, depth: int = 3) -> Optional[Built]:
    """Normal form of the construction of the per-band group list (through one level of list comprehension + helper)."""
    e = group_expr
    for _ in range(depth):
        b = None
        if isinstance(e, ast.Name):
            b = built_container(S, e, at)
            if b is None:
                ds = S.du.reaching(e.id, at)
                if len(ds) == 1 and ds[0].value is not None:
                    e, at = ds[0].value, ds[0].node
                    continue
                return None
        elif isinstance(e, (ast.ListComp, ast.GeneratorExp)):
            b = built_container(S, e, at)
        if b is None:
            return None
        return b
    return None


MEMBER_FORMS = ("N[0] <= IB < N[1]", "N[1] > IB >= N[0]", "IB >= N[0] and IB < N[1]", "N[0] <= IB and IB < N[1]", "IB in range(N[0], N[1])")


def check_band_values(rule, idx, f: FunctionInfo, average: bool = True) -> None:
    """Tabulator.__call__: result[ik, j] is the value of the group that contains the j-th requested band.

    Decided on resolved expressions, so temporaries, renamed variables, tuple-unpacked groups, enumerate ↔ range(len) and an
    extracted helper for the band → group search do not matter."""
    from ..sem import inline_private_helpers, loopify_comprehensions
    f = inline_private_helpers(idx, loopify_comprehensions(idx, f))
    S = Sem(idx, f)
    cfg, du, pm = S.cfg, S.du, S.pm
    # (1) the store result[ik, J] = VALUES[KEY]
    stores = []
    for s in ast.walk(f.node):
        if isinstance(s, ast.Assign) and isinstance(s.targets[0], ast.Subscript) and isinstance(s.targets[0].slice, ast.Tuple) and len(s.targets[0].slice.elts) == 2 \
                and isinstance(s.value, ast.Subscript) and isinstance(s.targets[0].value, ast.Name):
            stores.append(s)
    if len(stores) != 1:
        rule.expect(False, "per-band store located", f, f.node, f"{f.qualname}: the store `result[ik, j] = values[group]` was not found exactly once")
        return
    st = stores[0]
    ikv, jv = norm(st.targets[0].slice.elts[0]), norm(st.targets[0].slice.elts[1])
    at = cfg.node(st)
    vals_name = norm(st.value.value)
    key = st.value.slice
    # (2) j runs over the positions of the requested bands
    jl = [l for l in enclosing_all(pm, st, ast.For)]
    from .common import index_domain
    jdom = None
    for l in jl:
        iv, seqs = index_domain(l)
        if iv == jv:
            jdom = seqs
    rule.check(jdom is not None and len(jdom) == 1, "column j of the result runs over the requested bands, in their order", f, st,
               f"`{norm1(st)}`: the column index {jv} does not enumerate the requested bands")
    bands = jdom[0] if jdom else None
    # (3) KEY = GROUPS[ik][j]  (list of per-k lists)  or  KEY = L[j]  (a list built for this k-point)
    site = None
    grp_name = None
    for cand in (key, S.resolve(key, at)):
        km = pmatch(cand, f"GRP[{ikv}][{jv}]", {"GRP"})
        if km and km[0][0] is cand:
            grp_name = f"{km[0][1]['GRP']}[{ikv}]"
            site = _find_group_builder(idx, f, S, km[0][1]["GRP"], ikv, at)
            break
    if grp_name is None and isinstance(key, ast.Subscript) and norm(key.slice) == jv and isinstance(key.value, ast.Name):
        grp_name = key.value.id
        site = _per_k_list_form(idx, f, S, key.value, at)
    if grp_name is None:
        rule.violation(f, st, f"`{norm1(st)}`: band column {jv} takes the value stored under `{norm1(key)}`, which is not the group assigned to the "
                       f"{jv}-th requested band of k-point {ikv}")
        return
    # (4) how GROUPS[ik] is built
    if site is None:
        rule.expect(False, "band → group search located", f, st, f"{f.qualname}: could not follow how `{grp_name}` (group of every requested band) is built")
        return
    S2, g2, rep_node, elem, loops, conds = site
    # loops: outer→inner [(target, iter_resolved_text, node)]
    n_expr = norm(elem)
    bands_r = None
    if bands is not None:
        try:
            bands_r = S.rnorm(ast.parse(bands, mode="eval").body, at)
        except SyntaxError:
            bands_r = bands
    band_loop = [k for k, (t, it, ln) in enumerate(loops) if it in (bands, bands_r)]
    grp_loop = [k for k, (t, it, ln) in enumerate(loops) if t == n_expr]
    ok_order = bool(band_loop and grp_loop) and band_loop[0] < grp_loop[0]
    rule.check(ok_order, "the group list is built band by band (requested-band loop outside, group search inside): entry j belongs to requested band j", g2,
               rep_node,
               f"`{grp_name}[{ikv}]` is filled with the group loop outside the loop over the requested bands (or not per requested band at all): its entries come "
               f"in ascending group order, not in the order of the requested bands, so for a band selection that is not ascending column j holds another "
               f"band's values")
    if band_loop and grp_loop:
        ibv = loops[band_loop[0]][0]
        if isinstance(elem, ast.Tuple) and len(elem.elts) == 2:
            P_, Q_ = norm(elem.elts[0]), norm(elem.elts[1])
        else:
            P_, Q_ = f"{n_expr}[0]", f"{n_expr}[1]"
        forms = [m_.replace("N[0]", "P").replace("N[1]", "Q") for m_ in MEMBER_FORMS]
        okc = any(any(pmatch(c, p_, {"P", "Q", "IB"}, {"P": P_, "Q": Q_, "IB": ibv}) and pmatch(c, p_, {"P", "Q", "IB"}, {"P": P_, "Q": Q_, "IB": ibv})[0][0] is c
                      for p_ in forms) for c in conds)
        rule.check(okc, "band → group by n0 ≤ ib < n1", g2, rep_node,
                   f"the group appended for band {ibv} is not selected by {n_expr}[0] <= {ibv} < {n_expr}[1]", stmt="band in group")
        gl_node = loops[grp_loop[0]][2]
        grp_iter = loops[grp_loop[0]][1]
        # values must be filled for the same groups
        info_keys = []
        for s in ast.walk(f.node):
            if isinstance(s, ast.Assign) and isinstance(s.targets[0], ast.Subscript) and norm(s.targets[0].value) == vals_name:
                info_keys.append(s)
        if len(info_keys) != 1:
            rule.expect(False, "group value store located", f, st, f"{f.qualname}: `{vals_name}[group] = …` not found exactly once")
            return
        vs = info_keys[0]
        vat = cfg.node(vs)
        kres = S.resolve(vs.targets[0].slice, vat)
        vres = S.resolve(vs.value, vat)
        tr = [c for c in method_calls(vs.value, "trace")] or [c for c in ast.walk(vres) if isinstance(c, ast.Call) and isinstance(c.func, ast.Attribute) and c.func.attr == "trace"]
        okv = False
        why = "no trace call in the stored value"
        if tr:
            tcall = [c for c in method_calls(vs.value, "trace")]
            if tcall:
                info = classify_trace(S, tcall[0])
                G = same_group(str(info.get("P")), str(info.get("Q"))) if info["kind"] == "group" else None
                kt = norm(kres)
                pq = [str(info.get("P")), str(info.get("Q"))]
                unpacked = info["kind"] == "group" and any(isinstance(l_.target, ast.Tuple) and [norm(x) for x in l_.target.elts] == pq
                                                           for l_ in enclosing_all(pm, vs, ast.For))
                okk = (G is not None and (kt == G or (isinstance(kres, ast.Tuple) and [norm(x) for x in kres.elts] == pq))) or \
                    (unpacked and isinstance(kres, ast.Tuple) and [norm(x) for x in kres.elts] == pq)
                okavg = True
                if average:
                    okavg = bool(pmatch(vs.value, "T_ / (Q_ - P_)", {"T_", "Q_", "P_"})) and isinstance(vs.value, ast.BinOp) and isinstance(vs.value.op, ast.Div) and \
                        isinstance(vs.value.left, ast.Call) and vs.value.left is tcall[0] and S.rnorm(vs.value.right, vat) == f"{info.get('Q')} - {info.get('P')}"
                okv = okk and okavg
                why = f"key `{kt}`, value `{norm1(vs.value, 80)}`"
        rule.check(okv, "group value = trace over the group" + (" / group size" if average else "") + ", stored under the group itself", f, vs,
                   f"the per-group value is not the trace over the group" + (" divided by its size" if average else "") + f" stored under that group ({why})")
        # same groups searched and filled
        vl = enclosing(pm, vs, ast.For)
        viter = S.rnorm(vl.iter, cfg.node(vl)) if vl is not None else None
        rule.check(viter is not None and (viter == grp_iter or viter.replace(".keys()", "") == grp_iter.replace(".keys()", "")),
                   "values are computed for the groups the bands are looked up in", f, vl or vs,
                   f"group values are computed for `{viter}` but bands are assigned groups from `{grp_iter}`")


def _search_form(idx, f, S: Sem, e: ast.AST, at: int):
    """Inner band → group search written as an expression: `_helper(b, GROUPS)` (first group containing the band returned from a
    loop) or `next(n for n in GROUPS if …[, default])`.  → (element, [(target, iter text, node)], [conditions]) or None."""
    if isinstance(e, ast.Call) and call_name(e) == "next" and e.args and isinstance(e.args[0], ast.GeneratorExp):
        ge = e.args[0]
        loops = [(norm(g_.target), S.rnorm(g_.iter, at), g_) for g_ in ge.generators]
        return ge.elt, loops, [c for g_ in ge.generators for c in g_.ifs]
    if isinstance(e, ast.Call):
        nm = e.func.id if isinstance(e.func, ast.Name) else e.func.attr if isinstance(e.func, ast.Attribute) and isinstance(e.func.value, ast.Name) \
            and e.func.value.id in ("self", "cls") else None
        g = next((h for h in reachable_helpers(idx, f) if h.name == nm), None)
        if g is None or any(isinstance(a, ast.Starred) for a in e.args):
            return None
        params = [p for p in g.params if p not in ("self", "cls")]
        sub: Dict[str, ast.AST] = {}
        for p, a in zip(params, e.args):
            sub[p] = a
        for k in e.keywords:
            if k.arg in params:
                sub[k.arg] = k.value
        rets = [r for r in ast.walk(g.node) if isinstance(r, ast.Return) and r.value is not None and not (isinstance(r.value, ast.Constant) and r.value.value is None)]
        if len(rets) != 1:
            return None
        S2 = Sem(idx, g)
        S2.inline_helpers = False
        fl = [l for l in reversed(enclosing_all(S2.pm, rets[0], ast.For))]
        if not fl:
            return None
        loops = []
        for l in fl:
            it = S._subst(l.iter, sub)
            loops.append((norm(l.target), S.rnorm(it, at) if all(isinstance(n, ast.AST) for n in [it]) else norm(it), l))
        conds = [S._subst(c.test, sub) for c in enclosing_all(S2.pm, rets[0], ast.If) if any(x is rets[0] for b_ in c.body for x in ast.walk(b_))]
        return S._subst(rets[0].value, sub), loops, conds
    return None


def _per_k_list_form(idx, f, S: Sem, name: ast.Name, at: int, inside: Optional[ast.AST] = None):
    """Normal form of a list built for one k-point whose j-th entry is the group of the j-th requested band: comprehension over the
    bands (inner search as a nested generator, a helper call or next(…)), or `L = []` + append in a loop nest; a trailing
    `[g for g in L if g is not None]` is looked through (it only matters when a band belongs to no group)."""
    cur, cur_at = name, at
    for _ in range(4):
        ds = S.du.reaching(cur.id, cur_at)
        augs = [d for d in ds if d.kind == "aug"]
        ds = [d for d in ds if d.kind != "aug"]
        if len(ds) != 1 or ds[0].value is None:
            return None
        v = ds[0].value
        if augs:
            # L = [] ; for b in bands: L += [n for n in GROUPS if …][:1]     (first match of the inner search, if any)
            if not ((isinstance(v, ast.List) and not v.elts) or norm(v) == "list()") or len(augs) != 1 or not isinstance(augs[0].stmt.op, ast.Add):
                return None
            a = augs[0].stmt
            av = a.value
            if isinstance(av, ast.Subscript) and norm(av.slice) in (":1", "0:1") and isinstance(av.value, ast.ListComp):
                lc = av.value
                loops = [(norm(l.target), S.rnorm(l.iter, S.cfg.node(l)), l) for l in reversed(enclosing_all(S.pm, a, ast.For))]
                loops = [x for x in loops if x[2].lineno >= ds[0].stmt.lineno and x[2] is not inside]
                at_ = S.cfg.node(a)
                loops += [(norm(ge.target), S.rnorm(ge.iter, at_), ge) for ge in lc.generators]
                conds = [i_.test for i_ in enclosing_all(S.pm, a, ast.If) if any(x is a for b_ in i_.body for x in ast.walk(b_))]
                conds += [c for ge in lc.generators for c in ge.ifs]
                return S, f, a, lc.elt, loops, conds
            return None
        if isinstance(v, ast.ListComp) and len(v.generators) == 1 and isinstance(v.elt, ast.Name) and isinstance(v.generators[0].target, ast.Name) \
                and v.elt.id == v.generators[0].target.id and isinstance(v.generators[0].iter, ast.Name) and len(v.generators[0].ifs) == 1 \
                and norm(v.generators[0].ifs[0]) == f"{v.elt.id} is not None":
            # reaching definitions *before* this statement
            cur, cur_at = v.generators[0].iter, ds[0].node
            continue
        if (isinstance(v, ast.List) and not v.elts) or norm(v) == "list()":
            for c in method_calls(f.node, "append"):
                if norm(c.func.value) == cur.id and len(c.args) == 1:
                    loops = [(norm(l.target), S.rnorm(l.iter, S.cfg.node(l)), l) for l in reversed(enclosing_all(S.pm, c, ast.For))]
                    # only the loops that start after the list was created belong to its construction
                    loops = [x for x in loops if x[2].lineno > ds[0].stmt.lineno and x[2] is not inside]
                    conds = [i_.test for i_ in enclosing_all(S.pm, c, ast.If) if any(x is c for b_ in i_.body for x in ast.walk(b_))]
                    return S, f, enclosing(S.pm, c, ast.stmt), c.args[0], loops, conds
            return None
        if isinstance(v, ast.ListComp):
            at_ = ds[0].node
            loops = [(norm(ge.target), S.rnorm(ge.iter, at_), ge) for ge in v.generators]
            conds = [c for ge in v.generators for c in ge.ifs]
            inner = _search_form(idx, f, S, v.elt, at_)
            if inner is not None:
                elem, l2, c2 = inner
                return S, f, v, elem, loops + l2, conds + c2
            return S, f, v, v.elt, loops, conds
        return None
    return None


def _find_group_builder(idx, f, S: Sem, grp_name: str, ikv: str, at: int):
    """(Sem, function, report node, appended element, loops outer→inner, conditions) of the construction that puts the group of every
    requested band into GROUPS[ik] — loop + append form, list-comprehension form, or either of them inside a private helper."""
    def from_append(S_, g_, app):
        loops = [(norm(l.target), S_.rnorm(l.iter, S_.cfg.node(l)), l) for l in reversed(enclosing_all(S_.pm, app, ast.For))]
        conds = [c.test for c in enclosing_all(S_.pm, app, ast.If) if any(x is app for b_ in c.body for x in ast.walk(b_))]
        return S_, g_, enclosing(S_.pm, app, ast.stmt), app.args[0], loops, conds

    def from_comp(S_, g_, lc, at_):
        loops = [(norm(ge.target), S_.rnorm(ge.iter, at_) if not isinstance(ge.iter, ast.Name) else _res_name(S_, ge.iter, at_), ge) for ge in lc.generators]
        conds = [c for ge in lc.generators for c in ge.ifs]
        return S_, g_, lc, lc.elt, loops, conds

    def _res_name(S_, nm, at_):
        r = S_.resolve(nm, at_)
        return norm(r)
    # form A: GROUPS[ik].append(N) in f
    for c in method_calls(f.node, "append"):
        if norm(c.func.value) == f"{grp_name}[{ikv}]" and len(c.args) == 1:
            return from_append(S, f, c)
    # form C: GROUPS.append(L) once per k-point, L a list built for this k-point
    for c in method_calls(f.node, "append"):
        if norm(c.func.value) == grp_name and len(c.args) == 1 and isinstance(c.args[0], ast.Name):
            lps = [l for l in enclosing_all(S.pm, c, ast.For)]
            if len(lps) == 1 and norm(lps[0].target) == ikv:
                L, L_at = c.args[0], S.du.node_of_expr(c)
                for _ in range(3):      # look through plain aliases `t = L`
                    dd = S.du.reaching(L.id, L_at)
                    if len(dd) == 1 and dd[0].kind == "assign" and isinstance(dd[0].value, ast.Name):
                        L, L_at = dd[0].value, dd[0].node
                    else:
                        break
                site = _per_k_list_form(idx, f, S, L, L_at, inside=lps[0])
                if site is not None:
                    return site
    # form B: GROUPS = [<per-k list> for ik in …]
    ds = S.du.reaching(grp_name, at) if grp_name.isidentifier() else []
    if len(ds) == 1 and isinstance(ds[0].value, ast.ListComp) and len(ds[0].value.generators) == 1 and norm(ds[0].value.generators[0].target) == ikv:
        elt = ds[0].value.elt
        if isinstance(elt, ast.Call):
            nm = elt.func.id if isinstance(elt.func, ast.Name) else elt.func.attr if isinstance(elt.func, ast.Attribute) else None
            for g in reachable_helpers(idx, f):
                if g.name == nm:
                    S2 = Sem(idx, g)
                    rets = [s for s in ast.walk(g.node) if isinstance(s, ast.Return) and s.value is not None]
                    if len(rets) == 1 and isinstance(rets[0].value, ast.Name):
                        for c in method_calls(g.node, "append"):
                            if norm(c.func.value) == rets[0].value.id and len(c.args) == 1:
                                return from_append(S2, g, c)
                        dd = S2.du.reaching(rets[0].value.id, S2.cfg.node(rets[0]))
                        if len(dd) == 1 and isinstance(dd[0].value, ast.ListComp):
                            return from_comp(S2, g, dd[0].value, dd[0].node)
                    if len(rets) == 1 and isinstance(rets[0].value, ast.ListComp):
                        return from_comp(S2, g, rets[0].value, S2.cfg.node(rets[0]))
        if isinstance(elt, ast.ListComp):
            return from_comp(S, f, elt, ds[0].node)
    return None


def _through_package_helpers(idx, f: FunctionInfo, S: Sem, alts: List[ast.AST]) -> List[ast.AST]:
    """An alternative that is a call of a module-level function of the package with a straight-line / if-reassign body and one return is replaced
    by the alternatives of that return value (parameters bound to the arguments) — e.g. a bound computed by `get_top_of_sea(emin, E, groups)`."""
    out: List[ast.AST] = []
    for a in alts:
        g = None
        if isinstance(a, ast.Call) and isinstance(a.func, ast.Name):
            g = idx.resolve_name(f.module, a.func.id) if hasattr(idx, "resolve_name") else None
            if not isinstance(g, FunctionInfo):
                cands = [h for h in idx.all_functions() if h.cls is None and h.name == a.func.id]
                g = cands[0] if len(cands) == 1 else None
        if not isinstance(g, FunctionInfo) or g.name in ("get_bands_below_range", "get_bands_above_range", "get_bands_in_range"):
            out.append(a)
            continue
        rets = [r for r in ast.walk(g.node) if isinstance(r, ast.Return) and r.value is not None]
        if len(rets) != 1 or any(isinstance(x, (ast.For, ast.While, ast.Try, ast.With)) for x in ast.walk(g.node)) or any(isinstance(x, ast.Starred) for x in a.args):
            out.append(a)
            continue
        params = list(g.params)
        bind = {p_: v_ for p_, v_ in zip(params, a.args)}
        bind.update({k.arg: k.value for k in a.keywords if k.arg in params})
        pa = g.node.args
        pos = [x.arg for x in pa.posonlyargs + pa.args]
        for i_, d_ in enumerate(pa.defaults):
            bind.setdefault(pos[len(pos) - len(pa.defaults) + i_], d_)
        if any(p_ not in bind for p_ in params):
            out.append(a)
            continue
        GS = Sem(idx, g)
        GS.inline_helpers = False
        GS.keep_names = set(params)
        for ga in GS.alternatives(rets[0].value, GS.cfg.node(rets[0])):
            out.append(S._subst(ga, bind))
    return out


def completion_blocks(idx, f: FunctionInfo):
    """The 'everything below / above the scanned window' blocks added next to the in-range groups:
    `W[(LO, HI)] = value` stores whose LO or HI comes from get_bands_below_range / get_bands_above_range.
    → [(kind 'sea' | 'anti', store stmt, Sem, groups name, [alternatives of the clamped bound], guard ok)]"""
    from ..sem import inline_private_helpers, loopify_comprehensions
    f = inline_private_helpers(idx, loopify_comprehensions(idx, f))
    S = Sem(idx, f)
    S.inline_helpers = False
    gdefs = [s for s in ast.walk(f.node) if isinstance(s, ast.Assign) and len(s.targets) == 1 and isinstance(s.targets[0], ast.Name)
             and isinstance(s.value, ast.Call) and call_name(s.value).split(".")[-1] == "get_bands_in_range"]
    if len(gdefs) != 1:
        raise AnalysisError(f"{f.short}: expected one `groups = get_bands_in_range(…)`, found {len(gdefs)}")
    G = gdefs[0].targets[0].id
    out = []
    for st in ast.walk(f.node):
        if not (isinstance(st, ast.Assign) and len(st.targets) == 1 and isinstance(st.targets[0], ast.Subscript) and isinstance(st.targets[0].slice, ast.Tuple)
                and len(st.targets[0].slice.elts) == 2):
            continue
        lo, hi = st.targets[0].slice.elts
        at = S.cfg.node(st)
        S.keep_names = {G}
        alts_lo = _through_package_helpers(idx, f, S, S.alternatives(lo, at))
        alts_hi = _through_package_helpers(idx, f, S, S.alternatives(hi, at))
        S.keep_names = set()
        has = lambda alts, fn: any(isinstance(c, ast.Call) and call_name(c).split(".")[-1] == fn for a in alts for c in ast.walk(a))
        conds = [(t, p) for t, p, _ in S.conditions(st, resolve=False)]
        nonempty = any(p and t.replace(" ", "") in (f"{norm(hi)}>{norm(lo)}", f"{norm(lo)}<{norm(hi)}") for t, p in conds) or \
            (norm(lo) == "0" and any(p and t.replace(" ", "") in (f"{norm(hi)}>0", f"0<{norm(hi)}") for t, p in conds))
        if has(alts_hi, "get_bands_below_range") and not has(alts_hi, "get_bands_above_range"):
            out.append(("sea", st, S, G, alts_hi, nonempty))
        elif has(alts_lo, "get_bands_above_range"):
            out.append(("anti", st, S, G, alts_lo, nonempty))
    return out


def check_completion_blocks(rule, idx, f: FunctionInfo, want=("sea",)) -> None:
    """sea: the filled block [lo, HI) ends at min(number of bands below the window, START of the first in-range group);
    anti: the empty block [LO, hi) starts at max(first band above the window, END of the last in-range group)."""
    blocks = completion_blocks(idx, f)
    for kind in want:
        mine = [b for b in blocks if b[0] == kind]
        rule.expect(len(mine) == 1, f"{f.qualname}: {kind} completion block located", f, f.node,
                    f"{f.qualname}: expected one `weights[(lo, hi)] = …` {kind} completion block, found {len(mine)}")
        if len(mine) != 1:
            continue
        _k, st, S, G, alts, nonempty = mine[0]
        fn, agg, want_idx = ("get_bands_below_range", "min", (f"{G}[0][0]",)) if kind == "sea" else ("get_bands_above_range", "max", (f"{G}[-1][-1]", f"{G}[-1][1]"))
        clamped = []
        bad = None
        for a in alts:
            if isinstance(a, ast.Call) and call_name(a) == agg and len(a.args) == 2:
                texts = [norm(x).replace(" ", "") for x in a.args]
                other = [t for x, t in zip(a.args, texts) if not (isinstance(x, ast.Call) and call_name(x).split(".")[-1] == fn)]
                if len(other) == 1 and other[0] in [w.replace(" ", "") for w in want_idx]:
                    clamped.append(a)
                else:
                    bad = a
        edge = "START of the first" if kind == "sea" else "END of the last"
        rule.check(bool(clamped) and bad is None,
                   f"{f.qualname}: the {'filled' if kind == 'sea' else 'empty'} block is clamped at the {edge} in-range group", f, st,
                   f"the {'fully-occupied' if kind == 'sea' else 'empty'} block `{norm1(st.targets[0])}` is clamped with "
                   f"`{norm1(bad) if bad is not None else 'nothing'}` instead of the {edge} in-range group "
                   f"({' / '.join(want_idx)}): a multi-band group straddling the edge of the scanned window is cut — its members are counted twice "
                   f"or traced in a partial (gauge-dependent) subspace")
        rule.check(nonempty, f"{f.qualname}: the {kind} block is added only when it is non-empty", f, st,
                   f"`{norm1(st)}` is not guarded by a `hi > lo` test: an empty group (ib, ib) would be traced")


def check_range_partition(rule, idx) -> None:
    """get_bands_in_range / get_bands_below_range / get_bands_above_range split the band groups without a gap at the window edges:
    a group is *below* iff max(Ebandmax) < emin, so it is *in range* iff max(Ebandmax[ib1:ib2]) >= emin (and symmetrically
    min(Ebandmin[ib1:ib2]) <= emax against Ebandmin > emax); the test is taken over exactly the bands [ib1, ib2) of the group."""
    TET = "wannierberri/grid/tetrahedron.py"
    gi = idx.function(TET, "get_bands_in_range")
    gb = idx.function(TET, "get_bands_below_range")
    ga = idx.function(TET, "get_bands_above_range")
    emin_p, emax_p = gi.params[0], gi.params[1]

    def edge_compare(f, arr_hint: str, bound: str):
        """(op name, resolved left text) of the comparison of an Eband* array (or a reduction of a slice of it) with `bound` in f"""
        S = Sem(idx, f)
        out = []
        for c in ast.walk(f.node):
            if isinstance(c, ast.Compare) and len(c.ops) == 1:
                l, r, op = c.left, c.comparators[0], type(c.ops[0]).__name__
                if norm(l) == bound:
                    l, r = r, l
                    op = {"Lt": "Gt", "Gt": "Lt", "LtE": "GtE", "GtE": "LtE"}.get(op, op)
                if norm(r) == bound and arr_hint in norm(l):
                    out.append((op, l, c))
        return out
    lo_in = edge_compare(gi, "Ebandmax", emin_p)
    hi_in = edge_compare(gi, "Ebandmin", emax_p)
    lo_out = edge_compare(gb, "Ebandmax", gb.params[0])
    hi_out = edge_compare(ga, "Ebandmin", ga.params[0])
    rule.expect(len(lo_in) == 1 and len(hi_in) == 1 and len(lo_out) == 1 and len(hi_out) == 1, "window-edge comparisons located", gi, gi.node,
                f"get_bands_in_range / below / above: expected one comparison each with the window edge, found "
                f"{len(lo_in)}, {len(hi_in)}, {len(lo_out)}, {len(hi_out)}")
    if not (len(lo_in) == 1 and len(hi_in) == 1 and len(lo_out) == 1 and len(hi_out) == 1):
        return
    comp = {"Lt": "GtE", "LtE": "Gt", "Gt": "LtE", "GtE": "Lt"}
    rule.check(lo_in[0][0] == comp[lo_out[0][0]], "lower edge: in-range test is the complement of the below-range test", gi, lo_in[0][2],
               f"a group is below the window iff Ebandmax `{lo_out[0][0]}` emin but in range iff `{norm1(lo_in[0][2])}`: a group whose top equals "
               f"the first Fermi level exactly is neither below nor in range (it gets no weight), or both (counted twice)")
    rule.check(hi_in[0][0] == comp[hi_out[0][0]], "upper edge: in-range test is the complement of the above-range test", gi, hi_in[0][2],
               f"a group is above the window iff Ebandmin `{hi_out[0][0]}` emax but in range iff `{norm1(hi_in[0][2])}`: a group whose bottom equals "
               f"the last Fermi level is neither above nor in range, or both")
    # the reduction runs over exactly the group's bands
    okg = True
    for (op_, l_, c_), red in ((lo_in[0], "max"), (hi_in[0], "min")):
        m_ = pmatch(l_, f"A_[P_:Q_].{red}()", {"A_", "P_", "Q_"}) or pmatch(l_, f"np.{red}(A_[P_:Q_])", {"A_", "P_", "Q_"}) or pmatch(l_, f"{red}(A_[P_:Q_])", {"A_", "P_", "Q_"})
        if not (m_ and m_[0][0] is l_):
            okg = False
            continue
        P_, Q_ = m_[0][1]["P_"], m_[0][1]["Q_"]
        x = c_
        S = Sem(idx, gi)
        bound_ok = False
        while x in S.pm:
            x = S.pm[x]
            tgts = [x.target] if isinstance(x, ast.For) else [g_.target for g_ in x.generators] if isinstance(x, (ast.ListComp, ast.GeneratorExp)) else []
            if any(isinstance(t_, ast.Tuple) and [norm(e_) for e_ in t_.elts] == [P_, Q_] for t_ in tgts):
                bound_ok = True
            for t_ in tgts:
                if isinstance(t_, ast.Name):
                    # `for g in groups: ib1, ib2 = g`  or  g[0], g[1]
                    if (P_, Q_) == (f"{t_.id}[0]", f"{t_.id}[1]"):
                        bound_ok = True
                    if isinstance(x, ast.For):
                        for st_ in x.body:
                            if isinstance(st_, ast.Assign) and len(st_.targets) == 1 and isinstance(st_.targets[0], ast.Tuple) \
                                    and [norm(e_) for e_ in st_.targets[0].elts] == [P_, Q_] and norm(st_.value) == t_.id:
                                bound_ok = True
        okg = okg and bound_ok
    rule.check(okg, "the window test of a group is the max / min over exactly its bands [ib1, ib2)", gi, lo_in[0][2],
               "the in-range test is not taken over max(Ebandmax[ib1:ib2]) / min(Ebandmin[ib1:ib2]) of the group's own bands")
