"""C12 — parallel evaluation = serial evaluation for every completion order (structural clauses).

R12.1 exactly-once collection under the `ray.wait` contract; the wait loop is left only on evidence computed from what ray.wait returned.
R12.2 result/K-point pairing (parallel and serial arms) and sibling accumulation.
R12.3 tabulated results are re-ordered by coordinate before run() returns (shared with C29).
R12.4 the per-K helper reads the weighted result after storing it and before clearing it.
R12.5 worker environment: ray.init receives the runtime_env merged by get_ray_runtime_env; nothing overwrites it afterwards.
"""
from __future__ import annotations

import ast
from typing import List, Optional

from ..index import AnalysisError, call_name, dotted, norm, norm1, names_in
from .common import (calls, enclosing, enclosing_all, fctx, in_body, is_name, method_calls, nested_functions, same,
                     stmts, store_targets)

LEVEL = "other"
EXPLANATION = (
    "Static must/never rules on run_grid.process, run_grid.run and TABresult.self_to_path: (R12.1) the set of "
    "already-collected remote results only grows inside the ray.wait loop and the collection loop lies on every "
    "path from ray.wait to a loop exit, so under the documented ray.wait contract (at most num_returns ready refs, "
    "in input order, possibly omitting refs returned earlier) every remote result is added exactly once, and the exit test of the loop "
    "is data-dependent on the list ray.wait returned (not on the number of refs requested); "
    "(R12.2) the K-point remote i was created from and the K-point its result is stored on are the same element expression "
    "(both resolved through temporaries, helpers and index lists), and the serial and parallel arms accumulate identically; (R12.3) every path of run() "
    "to its return passes the coordinate-based re-ordering of tabulated results; (R12.4) the helper reads the "
    "weighted result between set_result and clear_result; (R12.5) the options handed to ray.init carry the runtime_env merged by "
    "get_ray_runtime_env (driver's package directory in py_modules) and no statement between that store and ray.init rewrites it; the list "
    "returned by ray.wait is never used positionally. Decides the exactly-once/pairing/ordering clauses for "
    "every schedule; does not decide floating-point reassociation of the sum.")

RG = "wannierberri/run_grid.py"
TAB = "wannierberri/result/tabresult.py"
KBR = "wannierberri/result/kbandresult.py"


def _monotone_update(stmt: ast.stmt, C: str) -> Optional[str]:
    """Return a description if `stmt` updates collected-set C monotonically, None if it is an overwrite."""
    if isinstance(stmt, ast.AugAssign) and is_name(stmt.target, C) and isinstance(stmt.op, ast.BitOr):
        return "C |= …"
    if isinstance(stmt, ast.Assign):
        v = stmt.value
        for t in stmt.targets:
            if isinstance(t, ast.Subscript) and is_name(t.value, C):
                if isinstance(v, ast.Constant) and v.value is True:
                    return "C[i] = True"
                return None
        if isinstance(v, ast.BinOp) and isinstance(v.op, ast.BitOr) and (is_name(v.left, C) or is_name(v.right, C)):
            return "C = C | …"
        if isinstance(v, ast.Call) and call_name(v) in ("np.logical_or", "numpy.logical_or") \
                and any(is_name(a, C) for a in v.args):
            return "C = np.logical_or(C, …)"
    return None


PAR = "wannierberri/parallel.py"


def worker_environment(ctx) -> None:
    """R12.5 — the workers must import the driver's checkout: the runtime_env handed to ray.init is the one get_ray_runtime_env built
    from the user's runtime_env (driver's package directory added to py_modules), and nothing overwrites it before ray.init."""
    from ..sem import Sem
    idx = ctx.index
    r5 = ctx.rule("R12.5", "ray.init receives the runtime_env built by get_ray_runtime_env (driver's checkout shipped to the workers)", min_instances=2)
    gre = idx.function(PAR, "get_ray_runtime_env")
    GS = Sem(idx, gre)
    pkg = [s_ for s_ in stmts(gre.node) if isinstance(s_, ast.Assign) and "__file__" in norm(s_.value) and "dirname" in norm(s_.value)]
    stores = [s_ for s_ in stmts(gre.node) if isinstance(s_, ast.Assign) and isinstance(s_.targets[0], ast.Subscript) and norm(s_.targets[0].slice) == "'py_modules'"]
    okg = False
    if len(pkg) == 1 and len(stores) == 1:
        pv = norm(pkg[0].targets[0])
        sl_, _, _ = GS.du.backward_slice(stores[0].value, GS.cfg.node(stores[0]))
        adds = [c_ for c_ in ast.walk(gre.node) if isinstance(c_, ast.Call) and isinstance(c_.func, ast.Attribute) and c_.func.attr in ("append", "insert")
                and any(norm(a_) == pv for a_ in c_.args)] + [e_ for e_ in sl_ if pv in names_in(e_)]
        rets = [r_ for r_ in stmts(gre.node) if isinstance(r_, ast.Return) and r_.value is not None]
        okg = bool(adds) and any(norm(r_.value) == norm(stores[0].targets[0].value) and GS.cfg.reachable(GS.cfg.node(stores[0]), [GS.cfg.node(r_)]) for r_ in rets)
    r5.instance(gre.short)
    r5.check(okg, "get_ray_runtime_env returns the user's runtime_env with the driver's package directory added to py_modules", gre, gre.node,
             "get_ray_runtime_env no longer returns a runtime_env whose py_modules contains the directory of the running package", stmt="py_modules")
    for name in ("ray_init", "ray_init_cluster"):
        from ..sem import inline_private_helpers
        f = inline_private_helpers(idx, idx.function(PAR, name))
        S = Sem(idx, f)
        inits = [c_ for c_ in ast.walk(f.node) if isinstance(c_, ast.Call) and call_name(c_) == "ray.init"]
        if not r5.expect(len(inits) == 1 and len(inits[0].keywords) == 1 and inits[0].keywords[0].arg is None and isinstance(inits[0].keywords[0].value, ast.Name),
                         f"{name}: ray.init(**options) located", f, f.node, f"{name}: a single `ray.init(**options)` call was not found"):
            continue
        D = inits[0].keywords[0].value.id
        init_st = enclosing(S.pm, inits[0], ast.stmt)
        r5.instance(f"{f.short}: ray.init(**{D})")
        built = [c_ for c_ in ast.walk(f.node) if isinstance(c_, ast.Call) and call_name(c_) == "get_ray_runtime_env"]
        st_env = [s_ for s_ in stmts(f.node) if isinstance(s_, ast.Assign) and isinstance(s_.targets[0], ast.Subscript) and norm(s_.targets[0].value) == D
                  and norm(s_.targets[0].slice) == "'runtime_env'"]
        ok = len(built) == 1 and len(st_env) == 1
        why = f"{name}: the result of get_ray_runtime_env is not stored as {D}['runtime_env']"
        if ok:
            v_ = S.resolve(st_env[0].value, S.cfg.node(st_env[0]))
            ok = isinstance(v_, ast.Call) and call_name(v_) == "get_ray_runtime_env"
            # the user's own runtime_env must be the input of the merge
            a0 = built[0].args[0] if built[0].args else None
            ok = ok and a0 is not None and "runtime_env" in norm(a0)
        if ok:
            n_store, n_init = S.cfg.node(st_env[0]), S.cfg.node(init_st)
            for k_ in stmts(f.node):
                if k_ is st_env[0] or k_ is init_st:
                    continue
                kills = (isinstance(k_, ast.Expr) and isinstance(k_.value, ast.Call) and isinstance(k_.value.func, ast.Attribute) and norm(k_.value.func.value) == D
                         and k_.value.func.attr in ("update", "clear", "pop", "setdefault")) or \
                    (isinstance(k_, ast.Assign) and any(norm(t_) == D for t_ in k_.targets)) or \
                    (isinstance(k_, (ast.Assign, ast.Delete)) and any(isinstance(t_, ast.Subscript) and norm(t_.value) == D and norm(t_.slice) == "'runtime_env'"
                                                                    for t_ in (k_.targets if hasattr(k_, "targets") else [])))
                if kills and S.cfg.reachable(n_store, [S.cfg.node(k_)]) and S.cfg.reachable(S.cfg.node(k_), [n_init]):
                    ok = False
                    why = (f"{name}: `{norm1(k_)}` runs between `{norm1(st_env[0])}` and ray.init: a runtime_env given by the user replaces the merged one, so the "
                           f"driver's checkout is not shipped and the workers import whatever wannierberri is installed on their node")
        r5.check(ok, f"{name}: the merged runtime_env reaches ray.init", f, st_env[0] if st_env else init_st, why, stmt=f"{name} runtime_env")


def run(ctx) -> None:
    worker_environment(ctx)
    idx = ctx.index
    process = idx.function(RG, "process")
    cfg, du, pm = fctx(process)
    ctx.assume("ray.wait(refs, num_returns=n, timeout=t) returns at most n ready refs, preserving input order, "
               "and may omit refs that an earlier call already returned (documented contract)")

    # ---------------------------------------------------------------- R12.1
    r1 = ctx.rule("R12.1", "exactly-once collection of remote results in process()")
    waits = calls(process.node, "ray.wait", suffix=False) or [c for c in method_calls(process.node, "wait")
                                                               if dotted(c.func).split(".")[0] in ("ray",)]
    if len(waits) != 1:
        raise AnalysisError(f"process(): expected exactly one ray.wait call, found {len(waits)}")
    wait = waits[0]
    loop = enclosing(pm, wait, (ast.While, ast.For))
    if loop is None:
        raise AnalysisError("process(): ray.wait is not inside a loop")
    r1.instance(f"{process.short}: loop around {norm1(wait, 60)}")
    wait_stmt = enclosing(pm, wait, ast.stmt)
    # the statement assigning the result of ray.wait
    ready_name = pending_name = None
    if isinstance(wait_stmt, ast.Assign) and isinstance(wait_stmt.targets[0], (ast.Tuple, ast.List)) \
            and len(wait_stmt.targets[0].elts) == 2:
        a, b = wait_stmt.targets[0].elts
        ready_name = a.id if isinstance(a, ast.Name) else None
        pending_name = b.id if isinstance(b, ast.Name) else None
    if ready_name is None:
        raise AnalysisError(f"process(): result of ray.wait is not unpacked into (ready, pending): {norm1(wait_stmt)}")
    waited_list = wait.args[0] if wait.args else None
    if not isinstance(waited_list, ast.Name):
        raise AnalysisError("process(): first argument of ray.wait is not a plain name")
    # collection loop: the for loop (inside the wait loop) that calls ray.get
    gets = [c for c in ast.walk(loop) if isinstance(c, ast.Call) and call_name(c) == "ray.get"
            and in_body(loop.body, c)]
    coll_loops = []
    for g in gets:
        fl = enclosing(pm, g, ast.For)
        if fl is not None and fl is not loop and in_body(loop.body, fl) and fl not in coll_loops:
            coll_loops.append(fl)
    if len(coll_loops) != 1:
        raise AnalysisError(f"process(): expected one collection loop calling ray.get inside the wait loop, "
                            f"found {len(coll_loops)}")
    coll = coll_loops[0]
    coll_node = cfg.node(coll)
    # (a) every path from ray.wait to an exit of the wait loop passes through the collection loop
    loop_nodes = {cfg.node_of[n] for n in ast.walk(loop) if n in cfg.node_of}
    exits = [y for x in loop_nodes for y in cfg.g.successors(x) if y not in loop_nodes]
    wnode = cfg.node(wait_stmt)
    bad_exit = None
    for e in set(exits):
        if cfg.reachable(wnode, [e], avoiding=[coll_node]):
            # reachable while avoiding the collection loop (only paths that stay inside the loop count)
            p = cfg.path_avoiding(wnode, e, avoiding=[coll_node])
            if p and all(n in loop_nodes for n in p[:-1]):
                bad_exit = p
                break
    if bad_exit:
        r1.violation(process, coll, "an exit of the ray.wait loop is reachable from ray.wait without passing the "
                     "collection loop: remote results that finished last are never added to the sum",
                     path=cfg.describe_path(bad_exit))
    else:
        r1.ok("collection loop lies on every path from ray.wait to an exit of the wait loop")

    # (a') the loop may only be left on evidence that everything was collected: the quantity tested by the exit condition must be computed
    #      from what ray.wait returned (or from the set of collected results), never from the number that was merely requested
    breaks = [b for b in ast.walk(loop) if isinstance(b, ast.Break) and enclosing(pm, b, (ast.While, ast.For)) is loop]
    from ..sem import Sem as _SemX
    LS_ = _SemX(idx, process)
    for b in breaks:
        tests = [n_ for t_, p_, n_ in LS_.conditions(b, resolve=False) if isinstance(n_, ast.AST) and any(x is n_ for x in ast.walk(loop))]
        names_tested = {n.id for t in tests for n in ast.walk(t) if isinstance(n, ast.Name)}
        evidence = False
        why_not = []
        for nm in sorted(names_tested):
            ds = [d for d in du.reaching(nm, cfg.node(b)) if d.node in loop_nodes]
            if not ds:
                continue        # loop-invariant (e.g. the number of remotes)
            for d in ds:
                sl_, _, _ = du.backward_slice(d.value, d.node) if d.value is not None else ([], None, None)
                dep = any(ready_name in names_in(e_) for e_ in sl_) or (d.value is not None and ready_name in names_in(d.value))
                if dep:
                    evidence = True
                else:
                    why_not.append(f"`{norm1(d.stmt, 70)}`")
        r1.check(evidence and not why_not, "the loop is left only when the refs returned by ray.wait say that all remotes are ready", process, b,
                 f"the exit test of the ray.wait loop depends on {', '.join(why_not) or 'nothing computed from the ray.wait result'}, which is not "
                 f"computed from the list ray.wait returned: when ray.wait returns fewer refs than requested (timeout) the loop ends early "
                 f"and the unfinished K-points are missing from the sum", stmt="wait-loop exit")
    if not breaks and isinstance(loop, ast.While) and not (isinstance(loop.test, ast.Constant) and loop.test.value is True):
        sl_, _, _ = du.backward_slice(loop.test, cfg.node(loop))
        r1.check(any(ready_name in names_in(e_) for e_ in sl_), "the loop condition is computed from the ray.wait result", process, loop,
                 "the ray.wait loop condition does not depend on what ray.wait returned", stmt="wait-loop condition")

    # (b0) ray.wait returns the ready refs in the order of the list it was given, not in completion order: a position in the returned list
    #      says nothing about which refs were already there after the previous call
    positional = [x for x in ast.walk(loop) if isinstance(x, ast.Subscript) and isinstance(x.value, ast.Name) and x.value.id == ready_name]
    for x in positional:
        r1.violation(process, enclosing(pm, x, ast.stmt) or loop,
                     f"`{norm1(x)}` selects refs by their position in the list returned by ray.wait; that list is ordered like the submitted list, "
                     f"so refs collected after an earlier wait are not a prefix of it: whenever workers finish out of submission order some K-points "
                     f"are collected twice and others never", stmt=f"positional use of {ready_name}")
    if positional:
        return
    # (b) which indices are collected
    it_exprs, _, _ = du.backward_slice(coll.iter, cfg.node(coll))
    inv = None
    for e in it_exprs:
        for sub in ast.walk(e):
            if isinstance(sub, ast.BinOp) and isinstance(sub.op, ast.BitAnd):
                for side, other in ((sub.left, sub.right), (sub.right, sub.left)):
                    if isinstance(side, ast.UnaryOp) and isinstance(side.op, ast.Invert) and isinstance(side.operand, ast.Name):
                        inv = (side.operand.id, other, sub)
            if isinstance(sub, ast.Call) and call_name(sub) in ("np.logical_and", "numpy.logical_and"):
                for a in sub.args:
                    if isinstance(a, ast.Call) and call_name(a) in ("np.logical_not", "numpy.logical_not") \
                            and a.args and isinstance(a.args[0], ast.Name):
                        inv = (a.args[0].id, [x for x in sub.args if x is not a][0], sub)
    reassigned_pending = any(isinstance(s, ast.Assign) and any(is_name(t, waited_list.id) for t in store_targets(s))
                             for s in ast.walk(loop) if isinstance(s, ast.stmt))
    if inv is not None:
        C, newly, expr = inv
        r1.idiom("idiom A: wait on the full list, collect `ready & ~collected`")
        r1.note(f"collected-set variable: {C}; selection expression: {norm1(expr)}")
        # `newly` must derive from the ready list of this ray.wait call
        sl, _, _ = du.backward_slice(newly, du.node_of_expr(newly))
        if not any(ready_name in names_in(e) for e in sl):
            r1.violation(process, expr, f"the mask `{norm1(newly)}` does not derive from the list returned by ray.wait")
        else:
            r1.ok(f"mask `{norm1(newly)}` derives from the ready list `{ready_name}` of ray.wait")
        # every store to C inside the loop must be monotone
        n_upd = 0
        for s in ast.walk(loop):
            if not isinstance(s, ast.stmt) or not in_body(loop.body, s):
                continue
            touched = any((isinstance(t, ast.Name) and t.id == C) or
                          (isinstance(t, ast.Subscript) and is_name(t.value, C)) for t in store_targets(s))
            if not touched:
                continue
            n_upd += 1
            how = _monotone_update(s, C)
            if how is None:
                r1.violation(process, s,
                             f"`{C}` (the set of already-collected remotes) is overwritten inside the ray.wait loop "
                             f"by a value not built from itself; ray.wait may omit a ref it returned earlier, so that "
                             f"ref is collected and added to the sum a second time when it re-appears")
            else:
                r1.ok(f"update of `{C}` is monotone ({how})")
        if n_upd == 0:
            r1.violation(process, loop, f"`{C}` is never updated inside the ray.wait loop: every ready remote is "
                         f"re-collected on every pass", stmt=f"while-loop around {norm1(wait, 50)}")
        # initial value: all False
        init = [d for d in du.reaching(C, cfg.node(loop)) if d.node not in loop_nodes]
        for d in init:
            v = d.value
            okinit = isinstance(v, ast.Call) and call_name(v) in ("np.zeros", "numpy.zeros") and any(
                k.arg == "dtype" and norm(k.value) == "bool" for k in v.keywords)
            r1.check(okinit, f"`{C}` starts empty ({norm1(v) if v is not None else '?'})", process, d.stmt,
                     f"`{C}` does not start as an all-False mask")
    elif reassigned_pending and pending_name == waited_list.id:
        r1.idiom("idiom B: the waited list shrinks to the pending list returned by ray.wait")
        sl, _, _ = du.backward_slice(coll.iter, cfg.node(coll))
        r1.check(any(ready_name in names_in(e) for e in sl),
                 "collection iterates over the ready list", process, coll,
                 "collection loop does not iterate over the refs returned as ready")
    else:
        # idiom C: a set of already collected indices guards the collection
        from ..sem import Sem
        PS_ = Sem(idx, process)
        get_stmt = enclosing(pm, gets[0], ast.stmt)
        seen = None
        for t_, p_, _ in PS_.conditions(get_stmt, resolve=False):
            e_ = ast.parse(t_, mode="eval").body
            if p_ is False and isinstance(e_, ast.Compare) and len(e_.ops) == 1 and isinstance(e_.ops[0], ast.In) and isinstance(e_.comparators[0], ast.Name) \
                    and norm(e_.left) == norm(coll.target):
                seen = e_.comparators[0].id
        if seen is None:
            raise AnalysisError("process(): collection idiom not recognised (neither `ready & ~collected`, a shrinking pending list, "
                                "nor a set of collected indices guarding the collection)")
        r1.idiom("idiom C: indices already collected are kept in a set that guards the collection")
        sl, _, _ = du.backward_slice(coll.iter, cfg.node(coll))
        r1.check(any(ready_name in names_in(e) for e in sl), "collection iterates over indices derived from the ready list", process, coll,
                 "the collection loop does not iterate over the refs returned as ready")
        init = [d for d in du.reaching(seen, cfg.node(loop)) if d.node not in loop_nodes]
        r1.check(len(init) == 1 and init[0].value is not None and norm(init[0].value) in ("set()", "[]", "list()"), f"`{seen}` starts empty", process,
                 init[0].stmt if init else loop, f"`{seen}` does not start as an empty set")
        grow, shrink = [], []
        for s_ in ast.walk(loop):
            if isinstance(s_, ast.stmt) and in_body(loop.body, s_):
                if isinstance(s_, ast.Assign) and any(is_name(t, seen) for t in store_targets(s_)):
                    (grow if (isinstance(s_.value, ast.BinOp) and isinstance(s_.value.op, ast.BitOr) and (is_name(s_.value.left, seen) or is_name(s_.value.right, seen))) else shrink).append(s_)
                if isinstance(s_, ast.AugAssign) and is_name(s_.target, seen):
                    (grow if isinstance(s_.op, ast.BitOr) else shrink).append(s_)
                if isinstance(s_, ast.Expr) and isinstance(s_.value, ast.Call) and isinstance(s_.value.func, ast.Attribute) and is_name(s_.value.func.value, seen):
                    (grow if s_.value.func.attr in ("update", "add", "append", "extend") else shrink).append(s_)
        for s_ in shrink:
            r1.violation(process, s_, f"`{seen}` (the set of already-collected remotes) is overwritten / shrunk inside the ray.wait loop; ray.wait may omit a ref it "
                         f"returned earlier, so that ref is collected and added to the sum a second time when it re-appears")
        if not grow:
            r1.violation(process, loop, f"`{seen}` is never updated inside the ray.wait loop: every ready remote is re-collected on every pass",
                         stmt=f"while-loop around {norm1(wait, 50)}")
        for s_ in grow:
            # everything collected in this pass must be recorded: the update adds the loop index itself or the iterated index list
            a_ = s_.value.args[0] if isinstance(s_, ast.Expr) and s_.value.args else (s_.value if isinstance(s_, ast.AugAssign) else None)
            okg = a_ is not None and (norm(a_) == norm(coll.iter) or (norm(a_) == norm(coll.target) and in_body(coll.body, s_)) or
                                       norm(PS_.resolve(a_, cfg.node(s_))) == norm(PS_.resolve(coll.iter, cfg.node(coll))))
            r1.check(okg, f"`{norm1(s_)}` records exactly the indices collected in this pass", process, s_,
                     f"`{norm1(s_)}` does not record the indices that were collected in this pass")

    # ---------------------------------------------------------------- R12.2
    r2 = ctx.rule("R12.2", "result ↔ K-point pairing and sibling accumulation", min_instances=2)
    # parallel arm
    r2.instance(f"{process.short}: parallel arm")
    get = [g for g in gets if in_body(coll.body, g)][0]
    garg = get.args[0] if get.args else None
    ivar = coll.target.id if isinstance(coll.target, ast.Name) else None
    if not (isinstance(garg, ast.Subscript) and isinstance(garg.value, ast.Name) and ivar
            and is_name(garg.slice, ivar)):
        raise AnalysisError(f"process(): ray.get argument is not <list>[<loop index>]: {norm1(get)}")
    if garg.value.id != waited_list.id:
        r2.violation(process, get, f"results are fetched from `{garg.value.id}` but ray.wait watches `{waited_list.id}`")
    # K-point of remote i: the first argument of the `.remote(...)` call that creates element i of the waited list
    from ..sem import Sem
    import re as _re
    PS2 = Sem(idx, process)
    PS2.inline_helpers = False
    # lists stay symbolic: K-points are compared as <list>[<index expression>]
    LISTS = set(process.params) | {s_.targets[0].id for s_ in stmts(process.node) if isinstance(s_, ast.Assign) and len(s_.targets) == 1
                                   and isinstance(s_.targets[0], ast.Name) and isinstance(s_.value, (ast.ListComp, ast.List))}
    rem_def = du.single_def(garg.value.id, cfg.node(loop))
    krem = None
    if rem_def is not None and rem_def.value is not None:
        PS2.keep_names = set(LISTS)
        el = PS2.element(rem_def.value, rem_def.node)
        PS2.keep_names = set()
        if isinstance(el, ast.Call) and call_name(el).endswith(".remote") and el.args:
            krem = el.args[0]
    if krem is None:
        raise AnalysisError("process(): cannot read which K-point element i of the remotes list is created from "
                            "(expected a list of `f.remote(K_i, …)` calls built element by element)")

    def canon_it(e: ast.AST, var: str) -> str:
        """element expression with the abstract position replaced by `var`"""
        return _re.sub(r"\bIT\d*(_\d+)?\b", var, norm(e))
    nested_ = nested_functions(process.node)
    modf = process.module.functions

    def helper_node(name: str):
        return nested_.get(name) or (modf[name].node if name in modf and name.startswith("_") else None)

    def store_sites(root, loopvars):
        """[(call node in process, receiving K-point expression in process's terms, stored value expression, helper name | None)]"""
        out_ = []
        for c_ in ast.walk(root):
            if not isinstance(c_, ast.Call):
                continue
            if isinstance(c_.func, ast.Attribute) and c_.func.attr == "set_result" and len(c_.args) == 1:
                PS2.keep_names = set(loopvars) | LISTS
                rcv = PS2.resolve(c_.func.value, du.node_of_expr(c_))
                val = PS2.resolve(c_.args[0], du.node_of_expr(c_))
                PS2.keep_names = set()
                out_.append((c_, rcv, val, None))
            elif isinstance(c_.func, ast.Name) and helper_node(c_.func.id) is not None:
                hn = helper_node(c_.func.id)
                inner_sets = [x for x in ast.walk(hn) if isinstance(x, ast.Call) and isinstance(x.func, ast.Attribute) and x.func.attr == "set_result" and len(x.args) == 1]
                if len(inner_sets) != 1:
                    continue
                hS = Sem(idx, hn)
                hS.inline_helpers = False
                hS._caller_done = True
                params = [a_.arg for a_ in hn.args.args]
                bind = {p_: a_ for p_, a_ in zip(params, c_.args)}
                bind.update({k.arg: k.value for k in c_.keywords if k.arg})
                at_h = hS.du.node_of_expr(inner_sets[0])
                rcv_h = hS.resolve(inner_sets[0].func.value, at_h)
                val_h = hS.resolve(inner_sets[0].args[0], at_h)
                PS2.keep_names = set(loopvars) | LISTS
                at_c = du.node_of_expr(c_)
                rcv = PS2.resolve(PS2._subst(rcv_h, bind), at_c)
                val = PS2.resolve(PS2._subst(val_h, bind), at_c)
                PS2.keep_names = set()
                out_.append((c_, rcv, val, c_.func.id))
        return out_
    srs = store_sites(coll, {ivar})
    if len(srs) != 1:
        raise AnalysisError(f"process(): expected one place in the collection loop where a fetched result is stored on a K-point (K.set_result, "
                            f"directly or in a store helper), found {len(srs)}")
    sr, rcv, val, helper_name = srs[0]
    want_k = canon_it(PS2.simplify(krem, cfg.node(coll)), ivar)
    got_k = norm(PS2.simplify(rcv, cfg.node(coll)))

    def deep(e: ast.AST, at_: int, var: str) -> str:
        """the same K-point expression with the local lists expanded to what they are built from (only parameters stay symbolic)"""
        filtered = {s_.targets[0].id for s_ in stmts(process.node) if isinstance(s_, ast.Assign) and len(s_.targets) == 1 and isinstance(s_.targets[0], ast.Name)
                    and isinstance(s_.value, ast.ListComp) and any(g_.ifs for g_ in s_.value.generators)}   # positions of a filtered list ≠ positions of its source
        PS2.keep_names = set(process.params) | {var} | filtered
        PS2.lenient_iter = True
        try:
            return canon_it(PS2.simplify(PS2.resolve(e, at_), at_), var)
        finally:
            PS2.keep_names = set()
            PS2.lenient_iter = False
    same_k = got_k == want_k or deep(rcv, cfg.node(coll), ivar) == deep(krem, cfg.node(coll), ivar)
    r2.check(same_k, f"the result of remote i is stored on the K-point remote i was created from ({want_k})",
             process, sr, f"the result of remote `{garg.value.id}[{ivar}]` (created from `{want_k}`) is stored "
             f"on `{got_k}` — a different K-point whenever the two differ (e.g. after a refinement step, "
             f"when already-evaluated points are skipped)")
    r2.check(norm(val) == norm(get) or norm(val) == norm(PS2.resolve(get, du.node_of_expr(get))), "stored value is the fetched result", process, sr,
             f"value stored by set_result is `{norm1(val)}`, not the fetched `{norm1(get)}`")
    # serial arm
    ser_loops = [s for s in stmts(process.node) if isinstance(s, ast.For) and not in_body([loop], s) and s is not loop
                 and store_sites(s, set())]
    if len(ser_loops) != 1:
        raise AnalysisError("process(): serial evaluation loop not found")
    ser = ser_loops[0]
    r2.instance(f"{process.short}: serial arm")
    lvars = {n.id for n in ast.walk(ser.target) if isinstance(n, ast.Name)}
    ssites = store_sites(ser, lvars)
    ssr, srcv, sval, _hn = ssites[0]
    okser = isinstance(sval, ast.Call) and sval.args and norm(sval.args[0]) == norm(srcv) and not call_name(sval).endswith(".remote")
    r2.check(okser, "serial arm evaluates and stores the same loop K-point", process, ssr,
             f"serial arm stores `{norm1(sval)}` on `{norm1(srcv)}`")
    # the K-points visited by the serial loop are those the remotes are created from
    # element of the serial loop: the loop's element variable stands for <iterated list>[i]
    it_s, tg_s = ser.iter, ser.target
    if isinstance(it_s, ast.Call) and call_name(it_s) == "enumerate" and it_s.args and isinstance(tg_s, ast.Tuple) and len(tg_s.elts) == 2:
        it_s, tg_s = it_s.args[0], tg_s.elts[1]
    if not isinstance(tg_s, ast.Name):
        raise AnalysisError(f"process(): serial loop target `{norm1(ser.target)}` not understood")
    elem_s = PS2._subst(srcv, {tg_s.id: ast.Subscript(value=it_s, slice=ast.Name(id="IT", ctx=ast.Load()), ctx=ast.Load())})
    PS2.keep_names = set(LISTS) | {"IT"}
    ser_elem = canon_it(PS2.simplify(PS2.resolve(elem_s, cfg.node(ser)), cfg.node(ser)), "i")
    PS2.keep_names = set()
    if ser_elem != canon_it(PS2.simplify(krem, cfg.node(ser)), "i"):
        # compare with the local lists expanded
        filtered_ = {s_.targets[0].id for s_ in stmts(process.node) if isinstance(s_, ast.Assign) and len(s_.targets) == 1 and isinstance(s_.targets[0], ast.Name)
                     and isinstance(s_.value, ast.ListComp) and any(g_.ifs for g_ in s_.value.generators)}
        PS2.keep_names = set(process.params) | {"IT"} | filtered_
        PS2.lenient_iter = True
        d1 = canon_it(PS2.simplify(PS2.resolve(elem_s, cfg.node(ser)), cfg.node(ser)), "i")
        d2 = canon_it(PS2.simplify(PS2.resolve(krem, cfg.node(ser)), cfg.node(ser)), "i")
        PS2.keep_names = set()
        PS2.lenient_iter = False
        if d1 == d2:
            ser_elem = canon_it(PS2.simplify(krem, cfg.node(ser)), "i")
    r2.check(ser_elem == canon_it(PS2.simplify(krem, cfg.node(ser)), "i"), "serial and parallel arms evaluate the same K-points", process, ser,
             f"serial arm evaluates `{ser_elem}` but the parallel arm `{canon_it(krem, 'i')}`", )
    # sibling accumulation
    acc = []
    for c in (sr, ssr):
        st = enclosing(pm, c, ast.stmt)
        acc.append(st)
    forms = {(type(s).__name__, norm(s.target) if isinstance(s, ast.AugAssign) else "",
              type(s.op).__name__ if isinstance(s, ast.AugAssign) else "") for s in acc}
    r2.check(len(forms) == 1 and all(isinstance(s, ast.AugAssign) and isinstance(s.op, ast.Add) for s in acc),
             "both arms accumulate `sum += set_result(K, res)`", process, acc[0],
             f"serial and parallel arms accumulate differently: {[norm1(s) for s in acc]}")
    rets = [s for s in stmts(process.node) if isinstance(s, ast.Return) and s is not None]
    last = rets[-1]
    accname = acc[0].target.id if isinstance(acc[0], ast.AugAssign) and isinstance(acc[0].target, ast.Name) else None
    r2.check(accname is not None and accname in names_in(last.value), "the accumulated sum is what process() returns",
             process, last, f"process() returns `{norm1(last.value)}`, not the accumulator `{accname}`")

    # ---------------------------------------------------------------- R12.4
    r4 = ctx.rule("R12.4", "per-K helper: store → weighted read → clear/dump")
    inner = nested_.get(helper_name) or (modf[helper_name].node if helper_name in modf else None)
    if inner is None:
        raise AnalysisError("process(): per-K store helper not found")
    r4.instance(f"{process.short}.{helper_name}")
    icfg, idu, ipm = fctx(inner)
    st_all = [c for c in method_calls(inner, "set_result") if isinstance(c.func.value, ast.Name)]
    kp = st_all[0].func.value.id if len(st_all) == 1 else inner.args.args[0].arg
    st_calls = [c for c in method_calls(inner, "set_result") if is_name(c.func.value, kp)]
    rf_calls = [c for c in method_calls(inner, "get_result_factor") if is_name(c.func.value, kp)]
    if len(st_calls) != 1 or len(rf_calls) != 1:
        raise AnalysisError("process().set_result: expected one K.set_result(res) and one K.get_result_factor()")
    n_set = icfg.node(enclosing(ipm, st_calls[0], ast.stmt))
    n_rf = icfg.node(enclosing(ipm, rf_calls[0], ast.stmt))
    r4.check(icfg.dominates(n_set, n_rf) and n_set != n_rf, "K.set_result(res) dominates K.get_result_factor()",
             f"{process.short}.set_result", rf_calls[0], "the weighted result is read before the result is stored")
    r4.check(same(st_calls[0].args[0], ast.Name(inner.args.args[1].arg)), "the stored value is the helper's argument",
             f"{process.short}.set_result", st_calls[0], "K.set_result is not given the evaluated result")
    for c in method_calls(inner, "clear_result"):
        n_c = icfg.node(enclosing(ipm, c, ast.stmt))
        r4.check(icfg.dominates(n_rf, n_c), "clear_result comes after the weighted read",
                 f"{process.short}.set_result", c, "the K-point result is cleared before its weighted value is read")
    ret = [s for s in stmts(inner) if isinstance(s, ast.Return)]
    for s in ret:
        v = idu.resolve_local(s.value, icfg.node(s))
        r4.check(v is rf_calls[0] or norm(v) == norm(rf_calls[0]), "helper returns result × factor",
                 f"{process.short}.set_result", s, f"helper returns `{norm1(v)}` instead of the weighted result")

    # ---------------------------------------------------------------- R12.3
    check_reorder(ctx, "R12.3")


def check_reorder(ctx, rid: str) -> None:
    """run(): every path to the return passes the coordinate-based re-ordering of TABresults (C12/C29)."""
    idx = ctx.index
    r3 = ctx.rule(rid, "tabulated results re-ordered by coordinate before run() returns", min_instances=2)
    runf = idx.function(RG, "run")
    cfg, du, pm = fctx(runf)
    rets = [s for s in stmts(runf.node) if isinstance(s, ast.Return) and s.value is not None]
    if not rets:
        raise AnalysisError("run(): no `return <result>` found")
    ret = rets[-1]
    retname = ret.value.id if isinstance(ret.value, ast.Name) else None
    if retname is None or any(not is_name(x.value, retname) for x in rets):
        raise AnalysisError("run(): return value is not one plain name")
    for meth, gridcls in (("self_to_path", "Path"), ("self_to_grid", "Grid")):
        cs = method_calls(runf.node, meth)
        if not cs:
            r3.violation(runf, ret, f"run() never calls TABresult.{meth}: tabulated points come back in completion "
                         f"order, not in {'path' if gridcls == 'Path' else 'grid'} order",
                         stmt=f"missing call .{meth}() before `{norm1(ret)}`")
            continue
        c = cs[0]
        r3.instance(f"{runf.short}: {norm1(c)}")
        from ..sem import Sem as _S
        RS_ = _S(idx, runf)
        cst = enclosing(pm, c, ast.stmt)
        fl = enclosing(pm, c, ast.For)
        if fl is None:
            raise AnalysisError(f"run(): .{meth}() is not inside a loop over the results")
        recv = norm(c.func.value)
        # what the loop runs over: the results dictionary itself, or a list filtered from it
        it = fl.iter
        filt: List[str] = []
        src = norm(it)
        elem = recv
        if isinstance(it, ast.Name):
            dd = du.single_def(it.id, cfg.node(fl))
            if dd is not None and isinstance(dd.value, (ast.ListComp, ast.GeneratorExp)) and len(dd.value.generators) == 1:
                ge = dd.value.generators[0]
                if norm(dd.value.elt) in [norm(x) for x in ast.walk(ge.target) if isinstance(x, ast.Name)]:
                    src = norm(ge.iter)
                    elem_c = norm(dd.value.elt)
                    filt = [norm(x).replace(elem_c, recv) for x in ge.ifs]
        r3.check(src.startswith(f"{retname}.results.") or src == f"{retname}.results", f"loop covers all entries of "
                 f"{retname}.results", runf, fl, f"the re-ordering loop iterates `{src}`, not every entry of the returned "
                 f"`{retname}.results`")
        conds = [(t_, p_) for t_, p_, _ in RS_.conditions(cst, resolve=False)] + [(t_, True) for t_ in filt]
        pos = [t_ for t_, p_ in conds if p_]
        okg = all(t_.startswith("isinstance(") for t_, _ in conds) and any(t_ == f"isinstance({recv}, TABresult)" for t_ in pos) and \
            any(t_ == f"isinstance(grid, {gridcls})" for t_ in pos) and all(t_.startswith("isinstance(grid, ") for t_, p_ in conds if not p_)
        r3.check(okg, f".{meth}() is applied to every TABresult when the k-set is a {gridcls}", runf, c,
                 f".{meth}() is guarded by {conds}: some tabulated results of a {gridcls} run are not re-ordered")
        # the re-ordering lies on every path to the return
        top_ = cst
        while pm.get(top_) is not runf.node and top_ in pm:
            top_ = pm[top_]
        for rt in rets:
            r3.check(cfg.dominates(cfg.node(top_), cfg.node(rt)),
                     "re-ordering lies on every path to the return", runf, rt,
                     f"a path reaches `{norm1(rt)}` without passing the .{meth}() re-ordering",
                     path=cfg.describe_path(cfg.path_avoiding(cfg.entry, cfg.node(rt), [cfg.node(top_)]) or []))
        if meth == "self_to_path":
            a = c.args[0] if c.args else (c.keywords[0].value if c.keywords else None)
            r3.check(a is not None and is_name(a, "grid"), "self_to_path receives run()'s own path", runf, c,
                     f"self_to_path is given `{norm1(a) if a is not None else None}` instead of the path being run")
    # self_to_path itself: mapping from coordinates
    from ..sem import Sem, inline_private_helpers
    stp = inline_private_helpers(idx, idx.function(TAB, "TABresult.self_to_path"))
    r3.instance(stp.short)
    scfg, sdu, spm = fctx(stp)
    SS = Sem(idx, stp)
    tp = method_calls(stp.node, "to_path")
    if len(tp) != 1:
        raise AnalysisError("self_to_path: expected one .to_path(mapping) call")
    marg = tp[0].args[0]
    sl, params, _ = sdu.backward_slice(marg, sdu.node_of_expr(tp[0]))
    texts = [norm(e) for e in sl]
    has_argmin = any(isinstance(sub, ast.Call) and call_name(sub) in ("np.argmin", "numpy.argmin") or
                     (isinstance(sub, ast.Call) and isinstance(sub.func, ast.Attribute) and sub.func.attr == "argmin")
                     for e in sl for sub in ast.walk(e))
    uses_own = any("self.kpoints" in t for t in texts)
    uses_path = any("get_kpoints" in t for t in texts)
    r3.check(has_argmin and uses_own and uses_path,
             "mapping = argmin over distances between own k-points and the path's k-points", stp, tp[0],
             f"the path mapping does not derive from nearest-coordinate matching (argmin={has_argmin}, "
             f"own kpoints={uses_own}, path kpoints={uses_path})")
    # argmin axis: the distance matrix D[a, b] = |X[a] − Y[b]| comes from `X[:, None, :] − Y[None, :, :]`; the map must have one
    # entry per PATH point, i.e. argmin must run over the axis indexed by the stored (own) k-points
    def origin(e: ast.AST) -> str:
        ex, _, _ = sdu.backward_slice(e, scfg.node(enclosing(spm, e, ast.stmt)))
        tt = " ".join(norm(x) for x in ex)
        return "path" if "get_kpoints" in tt else "own" if "self.kpoints" in tt else "?"
    own_axis = None
    for e in sl:
        for sub in ast.walk(e):
            if isinstance(sub, ast.BinOp) and isinstance(sub.op, ast.Sub):
                try:
                    at_ = scfg.node(enclosing(spm, sub, ast.stmt))
                    l_, r_ = (sdu.resolve_local(x, at_) if isinstance(x, ast.Name) else x for x in (sub.left, sub.right))
                except Exception:
                    continue
                if not (isinstance(l_, ast.Subscript) and isinstance(r_, ast.Subscript)):
                    continue
                pat = {norm(x.slice).replace(" ", "").strip("()"): x for x in (l_, r_)}
                if set(pat) == {":,None,:", "None,:,:"}:
                    o0, o1 = origin(pat[":,None,:"].value), origin(pat["None,:,:"].value)
                    if {o0, o1} == {"own", "path"}:
                        own_axis = 0 if o0 == "own" else 1
    for e in sl:
        for sub in ast.walk(e):
            if isinstance(sub, ast.Call) and call_name(sub) in ("np.argmin", "numpy.argmin"):
                ax = [k.value for k in sub.keywords if k.arg == "axis"] + list(sub.args[1:2])
                if own_axis is None or not ax or not isinstance(ax[0], ast.Constant):
                    raise AnalysisError("self_to_path: cannot relate the argmin axis to the distance matrix "
                                        "`own[:, None, :] - path[None, :, :]`")
                r3.check(ax[0].value == own_axis, "argmin runs over the axis of the stored k-points (one map entry per path point)",
                         stp, sub, f"the distance matrix has the stored k-points on axis {own_axis} but argmin runs over axis "
                         f"{ax[0].value}: `mapping` becomes the inverse permutation (one entry per stored point) and is then used as a "
                         f"gather index — tabulated values are attached to the wrong path points whenever batches complete out of order")
    # results rebuilt for every key + kpoints replaced
    comp = enclosing(spm, tp[0], ast.DictComp)
    r3.check(comp is not None and norm(comp.generators[0].iter) in ("self.results", "self.results.items()", "self.results.keys()") and not comp.generators[0].ifs,
             "every tabulated quantity is re-ordered", stp, tp[0], "not every entry of self.results is re-ordered")
    kst = [s for s in stmts(stp.node) if isinstance(s, ast.Assign) and norm(s.targets[0]) == "self.kpoints"]
    r3.check(len(kst) == 1 and "kpoints_path" in norm(kst[0].value) or
             (len(kst) == 1 and any("get_kpoints" in norm(x) for x in sdu.backward_slice(kst[0].value, scfg.node(kst[0]))[0])),
             "stored k-points replaced by the path's k-points", stp, kst[0] if kst else stp.node,
             "self.kpoints is not replaced by the path's k-points after re-ordering")
    # to_path: data[ik] for ik in k_map, order preserved
    top = idx.function(KBR, "K__Result.to_path")
    r3.instance(top.short)
    comps = [n for n in ast.walk(top.node) if isinstance(n, ast.ListComp)]
    km = top.node.args.args[1].arg
    okc = False
    for lc in comps:
        g = lc.generators[0]
        if is_name(g.iter, km) and not g.ifs and isinstance(lc.elt, ast.Subscript) and isinstance(g.target, ast.Name) \
                and is_name(lc.elt.slice, g.target.id):
            okc = True
    fancy = [n for n in ast.walk(top.node) if isinstance(n, ast.Subscript) and is_name(n.slice, km)]
    r3.check(okc or bool(fancy), "to_path gathers data[k_map[i]] in map order", top, top.node,
             "K__Result.to_path does not gather `data[ik] for ik in k_map` in order", stmt="to_path body")


from ..selftest import V  # noqa: E402

SELFTEST = [
    V("user options overwrite the merged runtime_env before ray.init (seeded C12-m5)", PAR,
      "    ray_init_loc['num_cpus'] = num_cpus\n", "    ray_init_loc['num_cpus'] = num_cpus\n    ray_init_loc.update(ray_init)\n", "fire", "R12.5"),
    V("new refs taken as the tail of the list returned by ray.wait (seeded C12-m6)", RG,
      "            for ir in np.where(remotes_calculated_diff)[0]:\n                res = ray.get(remotes[ir])\n",
      "            for ir in [remotes.index(r_) for r_ in remotes_calculated[int(remotes_calculated_old.sum()):]]:\n                res = ray.get(remotes[ir])\n", "fire", "R12.1"),
    V("exit counter advanced by the requested number (seeded C12-m4)", RG,
      "            remotes_calculated, _ = ray.wait(\n                remotes, num_returns=min(num_remotes_calculated + nstep_print, num_remotes),\n                timeout=60)\n\n            num_remotes_calculated = len(remotes_calculated)\n",
      "            num_remotes_calculated = min(num_remotes_calculated + nstep_print, num_remotes)\n            remotes_calculated, _ = ray.wait(remotes, num_returns=num_remotes_calculated, timeout=60)\n\n",
      "fire", "R12.1"),
    V("result stored on the K-point with the remote's index in another list", RG, "                Kp = dK_list[ir]\n", "                Kp = K_list[ir]\n", "fire", "R12.2"),
    V("neutral: K-point picked through the index list", RG, "                Kp = dK_list[ir]\n", "                ik_ = selK[ir]\n                Kp = K_list[ik_]\n", "silent"),
    V("collected set overwritten (the original defect)", RG,
      "remotes_calculated_old = remotes_calculated_old | remotes_calculated_bool",
      "remotes_calculated_old = remotes_calculated_bool", "fire", "R12.1"),
    V("collected set never updated", RG,
      "            remotes_calculated_old = remotes_calculated_old | remotes_calculated_bool\n",
      "            pass\n", "fire", "R12.1"),
    V("break before collecting the last batch", RG,
      """            for ir in np.where(remotes_calculated_diff)[0]:
                res = ray.get(remotes[ir])
                Kp = dK_list[ir]
                result_sum += set_result(Kp, res)
            if num_remotes_calculated >= num_remotes:
                break
""",
      """            if num_remotes_calculated >= num_remotes:
                break
            for ir in np.where(remotes_calculated_diff)[0]:
                res = ray.get(remotes[ir])
                Kp = dK_list[ir]
                result_sum += set_result(Kp, res)
""", "fire", "R12.1"),
    V("result stored on K_list[ir] instead of dK_list[ir]", RG,
      "                Kp = dK_list[ir]\n", "                Kp = K_list[ir]\n", "fire", "R12.2"),
    V("parallel arm overwrites instead of accumulating", RG,
      "                Kp = dK_list[ir]\n                result_sum += set_result(Kp, res)",
      "                Kp = dK_list[ir]\n                result_sum = set_result(Kp, res)", "fire", "R12.2"),
    V("path re-ordering dropped", RG,
      "                val.self_to_path(path=grid)", "                pass", "fire", "R12.3"),
    V("re-ordering only for the 'tabulate' key", RG,
      "        if isinstance(val, TABresult):", "        if isinstance(val, TABresult) and key == 'tabulate':",
      "fire", "R12.3"),
    V("early return before re-ordering", RG,
      "    print(\"run() finished\")\n", "    print(\"run() finished\")\n    if not parallel:\n        return result_all\n",
      "fire", "R12.3"),
    V("argmin over the wrong axis", TAB, "mapping = np.argmin(norm, axis=0)", "mapping = np.argmin(norm, axis=1)",
      "fire", "R12.3"),
    V("distance matrix transposed (seeded C12-m2)", TAB, "diff = abs(kpoints[:, None, :] - kpoints_path[None, :, :])",
      "diff = abs(kpoints_path[:, None, :] - kpoints[None, :, :])", "fire", "R12.3"),
    V("neutral: distance matrix and argmin both transposed", TAB,
      "        diff = abs(kpoints[:, None, :] - kpoints_path[None, :, :])\n        diff -= np.round(diff)  # account for periodicity\n        norm = np.linalg.norm(diff, axis=2)\n        mapping = np.argmin(norm, axis=0)",
      "        diff = abs(kpoints_path[:, None, :] - kpoints[None, :, :])\n        diff -= np.round(diff)  # account for periodicity\n        norm = np.linalg.norm(diff, axis=2)\n        mapping = np.argmin(norm, axis=1)",
      "silent"),
    V("mapping by position instead of coordinates", TAB, "mapping = np.argmin(norm, axis=0)",
      "mapping = np.arange(len(kpoints_path))", "fire", "R12.3"),
    V("result cleared before the weighted read", RG,
      """        Kp.set_result(res)
        res_fac = Kp.get_result_factor()
        if dump_results:
            Kp.dump_result()
        elif not store_results:
            Kp.clear_result()
""",
      """        Kp.set_result(res)
        if dump_results:
            Kp.dump_result()
        elif not store_results:
            Kp.clear_result()
        res_fac = Kp.get_result_factor()
""", "fire", "R12.4"),
    # neutral rewrites
    V("neutral: np.logical_or form", RG,
      "remotes_calculated_old = remotes_calculated_old | remotes_calculated_bool",
      "remotes_calculated_old = np.logical_or(remotes_calculated_old, remotes_calculated_bool)", "silent"),
    V("neutral: augmented |= form", RG,
      "remotes_calculated_old = remotes_calculated_old | remotes_calculated_bool",
      "remotes_calculated_old |= remotes_calculated_bool", "silent"),
    V("neutral: update moved before the break test", RG,
      """            if num_remotes_calculated >= num_remotes:
                break
            remotes_calculated_old = remotes_calculated_old | remotes_calculated_bool
""",
      """            remotes_calculated_old = remotes_calculated_old | remotes_calculated_bool
            if num_remotes_calculated >= num_remotes:
                break
""", "silent"),
    V("neutral: renamed locals in the collection loop", RG,
      """                res = ray.get(remotes[ir])
                Kp = dK_list[ir]
                result_sum += set_result(Kp, res)
            if num""",
      """                fetched = ray.get(remotes[ir])
                kpoint = dK_list[ir]
                result_sum += set_result(kpoint, fetched)
            if num""", "silent"),
    V("neutral: inline K-point in the collection loop", RG,
      """                Kp = dK_list[ir]
                result_sum += set_result(Kp, res)
            if num""",
      """                result_sum += set_result(dK_list[ir], res)
            if num""", "silent"),
]
