"""Owner / spin-channel provenance shared by C25 and C33.

An *owner* is the object an R-indexed array belongs to: `self`, a spin-channel sub-object of self
(`self.data_K_up`, `self.system_down`, …) or a loop variable ranging over a literal list of such objects.
R-indexed data of different owners are indexed by different R-vector lists and must never be mixed.
"""
from __future__ import annotations

import ast
import re
from typing import Dict, List, Optional, Tuple

from ..defuse import DefUse
from ..index import dotted, norm, norm1, walk_no_nested

R_INDEXED = {"Ham_R", "expdK_corners_tetra", "expdK_corners_parallel", "get_R_mat", "rvec", "_XX_R", "iRvec",
             "cRvec", "has_R_mat", "set_R_mat", "nRvec"}

UP_RE = re.compile(r"(^|_)(up)($|_)")
DOWN_RE = re.compile(r"(^|_)(down|dw|dn)($|_)")


def channel_of_name(name: str) -> Optional[str]:
    """'up' / 'down' if the identifier names a spin channel (data_K_up, system_down, expdK_up, …)."""
    if DOWN_RE.search(name):
        return "down"
    if UP_RE.search(name):
        return "up"
    return None


def chains(e: ast.AST) -> List[ast.AST]:
    """Maximal Name/Attribute/Call/Subscript chains under e."""
    out: List[ast.AST] = []

    def visit(n: ast.AST) -> None:
        if isinstance(n, (ast.Attribute, ast.Name)):
            out.append(n)
            # still look inside subscripts / call args hanging off the chain
            x = n
            while isinstance(x, (ast.Attribute, ast.Subscript, ast.Call)):
                if isinstance(x, ast.Subscript):
                    visit(x.slice)
                    x = x.value
                elif isinstance(x, ast.Call):
                    for a in x.args:
                        visit(a)
                    for k in x.keywords:
                        visit(k.value)
                    x = x.func
                else:
                    x = x.value
            return
        if isinstance(n, (ast.Subscript, ast.Call)):
            # treat `a.b[...]` / `a.b(...)` as part of the chain of its base
            base = n.value if isinstance(n, ast.Subscript) else n.func
            if isinstance(base, (ast.Attribute, ast.Name, ast.Subscript, ast.Call)):
                if isinstance(n, ast.Subscript):
                    visit(n.slice)
                else:
                    for a in n.args:
                        visit(a)
                    for k in n.keywords:
                        visit(k.value)
                visit(base)
                return
        for ch in ast.iter_child_nodes(n):
            visit(ch)

    visit(e)
    return out


def chain_parts(n: ast.AST) -> List[str]:
    """['self', 'data_K_up', 'Ham_R'] for self.data_K_up.Ham_R[...] (calls/subscripts transparent)."""
    parts: List[str] = []
    while True:
        if isinstance(n, ast.Attribute):
            parts.append(n.attr)
            n = n.value
        elif isinstance(n, ast.Subscript):
            n = n.value
        elif isinstance(n, ast.Call):
            n = n.func
        elif isinstance(n, ast.Name):
            parts.append(n.id)
            break
        else:
            parts.append("?")
            break
    return list(reversed(parts))


def loop_owner_vars(func: ast.AST, selfname: str = "self") -> Dict[str, List[str]]:
    """Loop variables ranging over a literal list/tuple of spin-channel objects:
    `for i, datak in enumerate([self.data_K_up, self.data_K_down])` → {'datak': ['up', 'down']}."""
    out: Dict[str, List[str]] = {}
    for n in walk_no_nested(func):
        if isinstance(n, (ast.For, ast.comprehension)):
            it = n.iter
            tgt = n.target
            if isinstance(it, ast.Call) and dotted(it.func) == "enumerate" and it.args:
                it = it.args[0]
                if isinstance(tgt, ast.Tuple) and len(tgt.elts) == 2:
                    tgt = tgt.elts[1]
            def chan(e):
                p = chain_parts(e)
                return channel_of_name(p[1]) if len(p) >= 2 and p[0] == selfname else (channel_of_name(p[0]) if len(p) == 1 else None)
            if isinstance(it, (ast.List, ast.Tuple)) and isinstance(tgt, ast.Name):
                chs = [chan(e) for e in it.elts]
                if all(c is not None for c in chs) and chs:
                    out[tgt.id] = chs
            elif isinstance(it, (ast.List, ast.Tuple)) and isinstance(tgt, ast.Tuple) and it.elts \
                    and all(isinstance(e, (ast.Tuple, ast.List)) and len(e.elts) == len(tgt.elts) for e in it.elts):
                # for datak, phases in ((self.data_K_up, p_up), (self.data_K_down, p_down)): every position that is a channel object in all rows
                for k, t in enumerate(tgt.elts):
                    if isinstance(t, ast.Name):
                        chs = [chan(e.elts[k]) for e in it.elts]
                        if all(c is not None for c in chs):
                            out[t.id] = chs
    return out


def propagate_channel_aliases(fi):
    """A copy of `fi` in which locals bound exactly once to a spin-channel sub-object of self (`up = self.data_K_up`,
    `up, dn = self.data_K_up, self.data_K_down`) are replaced by that attribute, so that owners are read off attribute chains."""
    import copy
    from ..index import FunctionInfo
    node = copy.deepcopy(fi.node)
    stores: Dict[str, int] = {}
    for n in ast.walk(node):
        if isinstance(n, ast.Name) and isinstance(n.ctx, (ast.Store, ast.Del)):
            stores[n.id] = stores.get(n.id, 0) + 1
        elif isinstance(n, ast.arg):
            stores[n.arg] = stores.get(n.arg, 0) + 1
    alias: Dict[str, ast.AST] = {}

    def is_channel_obj(e: ast.AST) -> bool:
        return isinstance(e, ast.Attribute) and isinstance(e.value, ast.Name) and e.value.id == "self" and channel_of_name(e.attr) is not None
    for st in ast.walk(node):
        if isinstance(st, ast.Assign) and len(st.targets) == 1:
            t, v = st.targets[0], st.value
            pairs = []
            if isinstance(t, ast.Name):
                pairs = [(t, v)]
            elif isinstance(t, ast.Tuple) and isinstance(v, ast.Tuple) and len(t.elts) == len(v.elts):
                pairs = list(zip(t.elts, v.elts))
            for a, b in pairs:
                if isinstance(a, ast.Name) and stores.get(a.id) == 1 and is_channel_obj(b):
                    alias[a.id] = b
    if not alias:
        return fi

    class Sub(ast.NodeTransformer):
        def visit_Name(self, n):
            if isinstance(n.ctx, ast.Load) and n.id in alias:
                return ast.copy_location(copy.deepcopy(alias[n.id]), n)
            return n
    node = Sub().visit(node)
    ast.fix_missing_locations(node)
    return FunctionInfo(name=fi.name, qualname=fi.qualname, module=fi.module, node=node, cls=fi.cls, decorators=list(fi.decorators))


def owner_of_chain(parts: List[str], loopvars: Dict[str, List[str]], selfname: str = "self") -> Optional[Tuple[str, str]]:
    """(owner, first R-indexed attribute) of an attribute chain, or None if it carries no R-indexed data."""
    if parts and parts[0] == selfname:
        if len(parts) >= 3 and channel_of_name(parts[1]) is not None:
            for a in parts[2:]:
                if a in R_INDEXED:
                    return channel_of_name(parts[1]), a
            return None
        for a in parts[1:]:
            if a in R_INDEXED:
                return "self", a
        return None
    if parts and parts[0] in loopvars:
        for a in parts[1:]:
            if a in R_INDEXED:
                return "loop:" + parts[0], a
    return None


def owned_leaves(du: DefUse, e: ast.AST, at: int, loopvars: Dict[str, List[str]]) -> List[Tuple[str, str, ast.AST]]:
    """All R-indexed leaves (owner, text, node) flowing into expression e."""
    exprs, _, _ = du.backward_slice(e, at)
    seen = set()
    out = []
    for x in exprs:
        for ch in chains(x):
            if id(ch) in seen:
                continue
            seen.add(id(ch))
            o = owner_of_chain(chain_parts(ch), loopvars)
            if o is not None:
                out.append((o[0], norm1(ch, 80), ch))
    return out


def stride_offset(sl: ast.AST) -> Optional[object]:
    """For a slice `a::2` return a (int constant or the Name id); None otherwise."""
    if isinstance(sl, ast.Slice) and sl.step is not None and isinstance(sl.step, ast.Constant) and sl.step.value == 2 \
            and sl.upper is None:
        if sl.lower is None:
            return 0
        if isinstance(sl.lower, ast.Constant) and isinstance(sl.lower.value, int):
            return sl.lower.value
        if isinstance(sl.lower, ast.Name):
            return sl.lower.id
        return norm(sl.lower)
    return None


def stride2_slots(sub: ast.Subscript) -> List[object]:
    """Offsets of all stride-2 slices in a subscript (`X[:, 1::2, 1::2]` → [1, 1])."""
    sl = sub.slice
    elts = sl.elts if isinstance(sl, ast.Tuple) else [sl]
    out = []
    for e in elts:
        o = stride_offset(e)
        if o is not None:
            out.append(o)
    return out
