"""C18 — system files round-trip (structural clauses).

R18.1 Wannier-centre WT file: the reader's split/interleave has equal lengths on both sides for every n (odd and even)
      and inverts the writer's de-interleave.
R18.2 matrix element order: writer loop nest + written element ↔ reader comprehension nest + transpose (tb, hr, AA).
R18.3 column positions: numeric fields of the writer's format ↔ reader's split()[a:b].
R18.4 npz directory: every essential property is written and consumed; R-matrix file names agree; lattice and centres
      are loaded before the R-vectors that need them; directory listing is used order-insensitively.
R18.5 point-group serialisation: keys written by as_dict ↔ keys consumed by the constructors.
R18.6 Rvectors(...) receive reduced-coordinate shifts.  R18.7 reader / writer options are honoured.
R18.8 chunked header blocks: every entry once, no empty chunk.  R18.9 shift ownership (constructed with centres; attributes change in pairs).

All rules work on the functions with their private helpers (and local closures) inlined and finite loops over slices
unrolled; names are resolved through their definitions and small integer / string expressions are folded, so the rules
see what is written / read, not how the code is laid out.
"""
from __future__ import annotations

import ast
import re
from typing import Dict, List, Optional, Tuple

from ..index import AnalysisError, call_name, dotted, norm, norm1, names_in
from ..sem import Sem, dict_entries, inline_private_helpers, return_cases, seq_segments, unroll_finite_loops
from ..taint import OrderTaint
from .common import calls, const_of, enclosing, enclosing_all, fctx, is_name, kwarg, method_calls, pmatch, stmts

LEVEL = "other"
EXPLANATION = (
    "Writer/reader agreement decided on the resolved syntax (helpers inlined, names substituted, integer and string "
    "expressions folded): (R18.1) the slice expressions of write_WCC_WT_format / write_hr_file and read_WCC_WT_format are "
    "evaluated over n = 0..9 (slice lengths are 2-periodic in n, so both parities are covered) — every slice assignment "
    "must have equal lengths on both sides and the reader must invert the writer; (R18.2) the writer's iteration order and "
    "written element index are composed with the reader's nested comprehension and the transposes applied on the way to "
    "the stored matrix; (R18.3) the position of the first numeric field in the writer's format equals the reader's split "
    "slice; (R18.4) the property lists of to_npz/load_npz are folded from the class bodies and compared, the file-name "
    "prefix returned by _R_mat_npz_filename is folded and compared with the glob pattern / prefix strip / filter of the "
    "loader, the load order is read from the concatenation normal form of the loop's iterable, and the directory listing "
    "in load_npz has no order-dependent use; (R18.5) the dict entries of PointGroup.as_dict / PointSymmetry.as_dict are "
    "matched with what the constructors read; (R18.8) the chunked degeneracy header is written in ceil(N/k) non-empty chunks (the readers stop "
    "after N entries); (R18.9) R-vectors left on a system by a reader are constructed with the centre shifts and the two shift attributes are only "
    "assigned in pairs outside class Rvectors. Not decided: numeric precision of the text formats, equality of bands.")

HR = "wannierberri/system/system_hr.py"
TB = "wannierberri/system/system_tb.py"
SR = "wannierberri/system/system_R.py"
PS = "wannierberri/symmetry/point_symmetry.py"


# ------------------------------------------------------------------------------------------------ small evaluators
def _eval_int(e: ast.AST, n: int, seqnames) -> int:
    if isinstance(e, ast.Constant) and isinstance(e.value, int):
        return e.value
    t = norm(e).replace(" ", "")
    for s in seqnames:
        if t in (f"{s}.shape[0]", f"len({s})"):
            return n
    if isinstance(e, ast.BinOp):
        a, b = _eval_int(e.left, n, seqnames), _eval_int(e.right, n, seqnames)
        if isinstance(e.op, ast.Add):
            return a + b
        if isinstance(e.op, ast.Sub):
            return a - b
        if isinstance(e.op, ast.Mult):
            return a * b
        if isinstance(e.op, ast.FloorDiv):
            return a // b
    if isinstance(e, ast.UnaryOp) and isinstance(e.op, ast.USub):
        return -_eval_int(e.operand, n, seqnames)
    raise AnalysisError(f"slice bound outside the integer subset: {norm1(e)}")


def _slice_indices(sl: ast.AST, n: int, seqnames, du=None, at=None) -> List[int]:
    if not isinstance(sl, ast.Slice):
        raise AnalysisError(f"not a slice: {norm1(sl)}")

    def ev(x):
        if x is None:
            return None
        if du is not None and isinstance(x, ast.Name):
            x = du.resolve_local(x, at)
        return _eval_int(x, n, seqnames)
    return list(range(n))[slice(ev(sl.lower), ev(sl.upper), ev(sl.step))]


def fold_str(e: ast.AST, env: Optional[Dict[str, object]] = None) -> Optional[List[object]]:
    """String expression → list of pieces (str constants merged; ('sym', text) for non-constant parts); None if not a string
    concatenation.  `env` gives the truth value of names used as IfExp tests."""
    env = env or {}

    def go(x: ast.AST) -> Optional[List[object]]:
        if isinstance(x, ast.Constant) and isinstance(x.value, str):
            return [x.value]
        if isinstance(x, ast.BinOp) and isinstance(x.op, ast.Add):
            l, r = go(x.left), go(x.right)
            return None if l is None or r is None else l + r
        if isinstance(x, ast.JoinedStr):
            out: List[object] = []
            for v in x.values:
                if isinstance(v, ast.Constant):
                    out.append(str(v.value))
                elif isinstance(v, ast.FormattedValue) and v.format_spec is None and v.conversion == -1:
                    sub = go(v.value)
                    out += sub if sub is not None else [("sym", norm(v.value))]
                else:
                    return None
            return out
        if isinstance(x, ast.IfExp):
            t = x.test
            pol = True
            while isinstance(t, ast.UnaryOp) and isinstance(t.op, ast.Not):
                t, pol = t.operand, not pol
            if isinstance(t, ast.Name) and t.id in env:
                return go(x.body if bool(env[t.id]) is pol else x.orelse)
            return None
        if isinstance(x, (ast.Name, ast.Attribute, ast.Subscript, ast.Call)):
            return [("sym", norm(x))]
        return None

    p = go(e)
    if p is None:
        return None
    merged: List[object] = []
    for x in p:
        if isinstance(x, str) and merged and isinstance(merged[-1], str):
            merged[-1] += x
        elif x != "":
            merged.append(x)
    return merged


def fold_int(S: Sem, e: ast.AST, at: int) -> Optional[int]:
    """Small integer expression (constants, + − *, len of a constant string) after resolution → int."""
    r = S.resolve(e, at)

    def go(x: ast.AST) -> Optional[int]:
        if isinstance(x, ast.Constant) and isinstance(x.value, int) and not isinstance(x.value, bool):
            return x.value
        if isinstance(x, ast.UnaryOp) and isinstance(x.op, (ast.USub, ast.UAdd)):
            v = go(x.operand)
            return None if v is None else (-v if isinstance(x.op, ast.USub) else v)
        if isinstance(x, ast.BinOp) and isinstance(x.op, (ast.Add, ast.Sub, ast.Mult)):
            a, b = go(x.left), go(x.right)
            if a is None or b is None:
                return None
            return a + b if isinstance(x.op, ast.Add) else a - b if isinstance(x.op, ast.Sub) else a * b
        if isinstance(x, ast.Call) and call_name(x) == "len" and len(x.args) == 1:
            p = fold_str(x.args[0])
            if p is not None and all(isinstance(y, str) for y in p):
                return len("".join(p))
        if isinstance(x, ast.Call) and call_name(x) in ("max", "min") and x.args and not x.keywords:
            vs = [go(a) for a in x.args]
            if all(v is not None for v in vs):
                return max(vs) if call_name(x) == "max" else min(vs)
        return None
    return go(r)


def _prep(idx, f, slices: bool = False, skip=()):
    g = inline_private_helpers(idx, f, skip=set(skip))
    if slices:
        g = unroll_finite_loops(idx, g, want=lambda els: any(isinstance(x, ast.Subscript) and isinstance(x.slice, ast.Slice) for x in els))
    return g, Sem(idx, g)


# ------------------------------------------------------------------------------------------------ R18.1 helpers
def _wt_writer_loops(idx, f) -> Tuple[object, List[Tuple[ast.For, ast.Subscript]]]:
    """Consecutive `for row in X[S]:` loops (after inlining/unrolling/resolution) that write lines."""
    g, S = _prep(idx, f, slices=True)
    out = []
    for s in stmts(g.node):
        if isinstance(s, ast.For) and method_calls(s, "write"):
            it = S.resolve(s.iter, S.cfg.node(s))
            if isinstance(it, ast.Subscript) and isinstance(it.slice, ast.Slice):
                out.append((s, it))
    return g, out


# ------------------------------------------------------------------------------------------------ R18.2/3 helpers
def _written_elements(g, S: Sem):
    """`X[a, b]` inside the argument of a `.write(...)` call with a, b bound by the enclosing loops / generators →
    {X: (a, b, iteration order outer→inner, node, write call)}."""
    pm = S.pm
    res: Dict[str, tuple] = {}
    for wc in method_calls(g.node, "write"):
        for n in ast.walk(wc):
            if isinstance(n, ast.Subscript) and isinstance(n.slice, ast.Tuple) and len(n.slice.elts) == 2 \
                    and all(isinstance(x, ast.Name) for x in n.slice.elts) and isinstance(n.value, ast.Name):
                a, b = n.slice.elts[0].id, n.slice.elts[1].id
                order: List[str] = []
                x: ast.AST = n
                comp = None
                while x in pm:
                    x = pm[x]
                    if isinstance(x, (ast.GeneratorExp, ast.ListComp)):
                        gens = [g_.target.id for g_ in x.generators if isinstance(g_.target, ast.Name)]
                        if a in gens and b in gens:
                            comp = gens
                            break
                if comp is not None:
                    order = [v for v in comp if v in (a, b)]
                else:
                    loops = [fl.target.id for fl in reversed(enclosing_all(pm, n, ast.For)) if isinstance(fl.target, ast.Name)]
                    order = [v for v in loops if v in (a, b)]
                if len(order) == 2 and a != b:
                    res.setdefault(n.value.id, (a, b, order, n, wc))
    return res


def _is_T102(c: ast.AST) -> bool:
    """a transposition of the first two axes: .transpose((1, 0, 2)) / .transpose(1, 0, 2) / np.transpose(x, (1, 0, 2)) /
    .swapaxes(0, 1) / np.swapaxes(x, 0, 1)"""
    if not isinstance(c, ast.Call):
        return False
    cn = call_name(c)
    args = c.args
    if isinstance(c.func, ast.Attribute) and c.func.attr == "transpose" and cn not in ("np.transpose", "numpy.transpose"):
        t = norm(args[0]) if len(args) == 1 else ", ".join(norm(a) for a in args)
        return t.replace("(", "").replace(")", "").replace("[", "").replace("]", "").replace(" ", "") in ("1,0,2", "1,0")
    if cn in ("np.transpose", "numpy.transpose") and len(args) == 2:
        return norm(args[1]).replace("(", "").replace(")", "").replace("[", "").replace("]", "").replace(" ", "") in ("1,0,2", "1,0")
    if isinstance(c.func, ast.Attribute) and c.func.attr == "swapaxes" and cn not in ("np.swapaxes", "numpy.swapaxes") and len(args) == 2:
        return sorted(norm(a) for a in args) == ["0", "1"]
    if cn in ("np.swapaxes", "numpy.swapaxes") and len(args) == 3:
        return sorted(norm(a) for a in args[1:]) == ["0", "1"]
    return False


_UNFOLDED: List[str] = []


def _reader_blocks(g, S: Sem):
    """Nested-comprehension reads `[[f.readline().split()[a:b] for _ in range(N)] for _ in range(N)]` with the folded column
    slice and the parity of first-two-axes transpositions applied before the block is stored into an R-indexed array."""
    pm = S.pm
    out = []
    for n in ast.walk(g.node):
        if isinstance(n, ast.ListComp) and isinstance(n.elt, ast.ListComp) and isinstance(n.elt.elt, ast.Subscript) \
                and "readline().split()" in norm(n.elt.elt.value) and isinstance(n.elt.elt.slice, ast.Slice):
            sl = n.elt.elt.slice
            st = enclosing(pm, n, ast.stmt)
            at = S.cfg.node(st)
            lo = fold_int(S, sl.lower, at) if sl.lower is not None else 0
            hi = fold_int(S, sl.upper, at) if sl.upper is not None else None
            if lo is None or hi is None:
                _UNFOLDED.append(f"{g.short}: cannot fold the column slice `{norm1(sl)}` of a block read")
                continue
            # follow the block to the statement that stores it into a subscripted target, counting transpositions
            ntr = sum(1 for c in ast.walk(st) if _is_T102(c) and any(x is n for x in ast.walk(c)))
            cur = st
            for _ in range(6):
                if not (isinstance(cur, ast.Assign) and isinstance(cur.targets[0], ast.Name)):
                    break
                nm = cur.targets[0].id
                par = pm.get(cur)
                body = next((b for b in (getattr(par, "body", None), getattr(par, "orelse", None)) if isinstance(b, list) and cur in b), None)
                if body is None:
                    break
                nxt = next((x for x in body[body.index(cur) + 1:] if nm in names_in(x)), None)
                if nxt is None:
                    break
                ntr += sum(1 for c in ast.walk(nxt) if _is_T102(c) and nm in names_in(c))
                cur = nxt
            out.append({"lo": lo, "hi": hi, "transposed": ntr % 2 == 1, "stmt": st})
    return out


def _numeric_field_pos(call_or_js: ast.AST) -> Optional[Tuple[int, int]]:
    """(index of first numeric (.real) field, number of numeric fields) of a line format."""
    if isinstance(call_or_js, ast.JoinedStr):
        fvs = [v for v in call_or_js.values if isinstance(v, ast.FormattedValue)]
        for i, v in enumerate(fvs):
            if norm(v.value).endswith(".real"):
                return i, len(fvs) - i
        return len(fvs), 0
    if isinstance(call_or_js, ast.Call) and isinstance(call_or_js.func, ast.Attribute) and call_or_js.func.attr == "format" \
            and isinstance(call_or_js.func.value, ast.Constant):
        nph = len(re.findall(r"\{[^}]*\}", call_or_js.func.value.value))
        tail = [a for a in call_or_js.args if not isinstance(a, ast.Starred)]
        numeric = [a for a in tail if norm(a).endswith((".real", ".imag"))]
        return nph - len(numeric), len(numeric)
    return None


def run(ctx) -> None:
    idx = ctx.index

    # ---------------------------------------------------------------- R18.1
    r1 = ctx.rule("R18.1", "Wannier-centre WT file: reader inverts writer for every number of centres", min_instances=2)
    rd, RS = _prep(idx, idx.function(HR, "read_WCC_WT_format"))
    rcfg, rdu = RS.cfg, RS.du
    writers = [idx.function(HR, "write_WCC_WT_format"), idx.function(HR, "write_hr_file")]
    wslices = None
    for w0 in writers:
        w, loops = _wt_writer_loops(idx, w0)
        if len(loops) != 2:
            if w0.name == "write_hr_file" and not loops:
                continue
            raise AnalysisError(f"{w0.short}: expected two `for row in data[slice]` write loops, found {len(loops)}")
        r1.instance(f"{w0.short}: rows {norm1(loops[0][1])} then {norm1(loops[1][1])}")
        r1.check(norm(loops[0][1].value) == norm(loops[1][1].value), f"{w0.name}: both loops run over the same centre array", w, loops[1][0],
                 f"the two write loops iterate over different arrays (`{norm1(loops[0][1].value)}` / `{norm1(loops[1][1].value)}`)")
        sl = [it.slice for _, it in loops]
        # writer must emit every row exactly once
        for n in range(0, 10):
            a = _slice_indices(sl[0], n, ())
            b = _slice_indices(sl[1], n, ())
            if sorted(a + b) != list(range(n)):
                r1.violation(w, loops[0][0], f"for n={n} centres the writer emits rows {a}+{b}: not every centre exactly once")
                break
        else:
            r1.ok(f"{w0.short}: the two loops emit every centre exactly once (n=0..9)")
        if wslices is None:
            wslices = sl
        elif [norm(x) for x in wslices] != [norm(x) for x in sl]:
            r1.violation(w, loops[0][0], "write_hr_file's inline copy de-interleaves differently from write_WCC_WT_format")
    if wslices is None:
        raise AnalysisError("no Wannier-centre writer loops found")
    # the table of centres is two-dimensional for every number of lines (np.loadtxt squeezes a one-line file to shape (3,))
    for c_ in ast.walk(rd.node):
        if isinstance(c_, ast.Call) and call_name(c_) in ("np.loadtxt", "np.genfromtxt", "numpy.loadtxt", "numpy.genfromtxt"):
            nd_ = kwarg(c_, "ndmin")
            wrapped_ = any(isinstance(p_, ast.Call) and call_name(p_) in ("np.atleast_2d", "numpy.atleast_2d") and any(x_ is c_ for x_ in ast.walk(p_)) for p_ in ast.walk(rd.node))
            r1.check((nd_ is not None and const_of(nd_) == 2) or wrapped_, "the centre table is read as a 2-D array whatever the number of centres", rd, c_,
                     f"`{norm1(c_, 80)}` returns a 1-D array for a file with a single centre: the even/odd de-interleaving then runs over the x, y, z components of that centre")
    # reader
    asg = [s for s in stmts(rd.node) if isinstance(s, ast.Assign) and isinstance(s.targets[0], ast.Subscript)
           and isinstance(s.targets[0].slice, ast.Slice) and isinstance(s.value, ast.Subscript)
           and isinstance(s.value.slice, ast.Slice)]
    if len(asg) != 2:
        # gather form: return data[IDX] with IDX an integer expression of np.arange(n) (e.g. j // 2 + nup * (j % 2))
        rets_g = [s for s in stmts(rd.node) if isinstance(s, ast.Return) and s.value is not None]
        okg = False
        if len(rets_g) == 1:
            rv0 = rets_g[0].value
            RS.keep_names = {rv0.value.id} if isinstance(rv0, ast.Subscript) and isinstance(rv0.value, ast.Name) else set()
            rv = RS.resolve(rv0, rcfg.node(rets_g[0]))
            RS.keep_names = set()
            if isinstance(rv, ast.Subscript) and not isinstance(rv.slice, (ast.Slice, ast.Tuple)):
                src_n = norm(rv.value)

                def vec(e, n):
                    """value of an integer expression built from np.arange(n): an int or a list of ints"""
                    if isinstance(e, ast.Constant) and isinstance(e.value, int):
                        return e.value
                    t_ = norm(e).replace(" ", "")
                    if t_ in (f"{src_n}.shape[0]", f"len({src_n})"):
                        return n
                    if isinstance(e, ast.Call) and call_name(e) in ("np.arange", "range") and len(e.args) == 1:
                        return list(range(vec(e.args[0], n)))
                    if isinstance(e, ast.BinOp):
                        a, b = vec(e.left, n), vec(e.right, n)
                        f_ = {ast.Add: lambda x, y: x + y, ast.Sub: lambda x, y: x - y, ast.Mult: lambda x, y: x * y,
                              ast.FloorDiv: lambda x, y: x // y, ast.Mod: lambda x, y: x % y}.get(type(e.op))
                        if f_ is None:
                            raise AnalysisError(f"operator outside the integer subset: {norm1(e)}")
                        if isinstance(a, list) and isinstance(b, list):
                            return [f_(x, y) for x, y in zip(a, b)]
                        if isinstance(a, list):
                            return [f_(x, b) for x in a]
                        if isinstance(b, list):
                            return [f_(a, y) for y in b]
                        return f_(a, b)
                    raise AnalysisError(f"index expression outside the integer subset: {norm1(e)}")
                r1.instance(f"{rd.short}: gather {norm1(rv, 70)}")
                bad_g = None
                for n in range(0, 10):
                    file_rows = _slice_indices(wslices[0], n, ()) + _slice_indices(wslices[1], n, ())
                    try:
                        ix = vec(rv.slice, n)
                    except ZeroDivisionError:
                        ix = None
                    if not isinstance(ix, list) or len(ix) != n or any(k < 0 or k >= n for k in ix) or [file_rows[k] for k in ix] != list(range(n)):
                        bad_g = (n, ix)
                        break
                okg = True
                r1.check(bad_g is None, "reader's gather inverts the writer's de-interleave for n = 0..9 (both parities)", rd, rets_g[0],
                         f"for n={bad_g[0] if bad_g else ''} Wannier functions the reader gathers file lines {bad_g[1] if bad_g else ''}: the centres come back permuted "
                         f"(or the index is out of range)")
        if not okg:
            raise AnalysisError(f"{rd.short}: expected two slice assignments out[S] = data[T] (or one gather data[index(arange(n))]), found {len(asg)}")
        asg = []
    if asg:
        r1.instance(f"{rd.short}: {norm1(asg[0])}; {norm1(asg[1])}")
    src_names = {norm(s.value.value) for s in asg}
    bad = None
    for n in (range(0, 10) if asg else ()):
        file_rows = _slice_indices(wslices[0], n, ()) + _slice_indices(wslices[1], n, ())  # file line k holds centre file_rows[k]
        recon: Dict[int, int] = {}
        for s in asg:
            tgt = _slice_indices(s.targets[0].slice, n, src_names, rdu, rcfg.node(s))
            src = _slice_indices(s.value.slice, n, src_names, rdu, rcfg.node(s))
            if len(tgt) != len(src):
                bad = (n, s, f"`{norm1(s)}` assigns {len(src)} rows to {len(tgt)} slots")
                break
            for t, k in zip(tgt, src):
                recon[t] = file_rows[k] if k < len(file_rows) else -1
        if bad:
            break
        if any(recon.get(i) != i for i in range(n)):
            bad = (n, asg[0], f"the reader places file rows so that centres come back as {[recon.get(i) for i in range(n)]}")
            break
    if bad:
        r1.violation(rd, bad[1], f"for n={bad[0]} Wannier functions {bad[2]}: the centre file written by write_hr_file cannot "
                     f"be read back (ValueError) or comes back permuted")
    elif asg:
        r1.ok("reader's split/interleave inverts the writer's de-interleave for n = 0..9 (both parities)")

    # ---------------------------------------------------------------- R18.2 / R18.3
    r2 = ctx.rule("R18.2", "matrix element order: writer nest/index ↔ reader nest/transpose", min_instances=3)
    r3 = ctx.rule("R18.3", "numeric columns: writer format ↔ reader split slice", min_instances=3)
    wtb, WTS = _prep(idx, idx.function(TB, "write_tb_file"))
    rtb, RTS = _prep(idx, idx.function(TB, "get_system_tb"))
    whr, WHS = _prep(idx, idx.function(HR, "write_hr_file"))
    rhr, RHS = _prep(idx, idx.function(HR, "get_system_hr"))
    for (w, WS_), (r, RS_), label, nblocks in (((wtb, WTS), (rtb, RTS), "_tb.dat", 2), ((whr, WHS), (rhr, RHS), "_hr.dat", 1)):
        wpm = WS_.pm
        by_arr = _written_elements(w, WS_)
        blocks = _reader_blocks(r, RS_)
        if len(by_arr) != nblocks or len(blocks) < nblocks:
            r2.expect(False, "", r, r.node, f"{label}: expected {nblocks} written array(s) / read block(s), found {len(by_arr)} / {len(blocks)}"
                      + (f" ({'; '.join(_UNFOLDED)})" if _UNFOLDED else ""))
            _UNFOLDED.clear()
            continue
        blocks.sort(key=lambda b_: b_["stmt"].lineno)
        warr = sorted(by_arr.items(), key=lambda kv: kv[1][3].lineno)
        pairs = [(warr[0], blocks[0])] + [(warr[-1], b_) for b_ in blocks[1:] if len(warr) > 1]
        for (arr, (a, b, order, n, wc)), blk in pairs:
            r2.instance(f"{label}: {w.qualname} writes {arr}[{a}, {b}] in order {order}; {r.qualname} reads {norm1(blk['stmt'], 60)}")
            swapped = (order == [b, a])  # outer loop runs over the second index
            r2.check(swapped == blk["transposed"],
                     f"{label}/{arr}: writer {'inner-first' if swapped else 'outer-first'} index ↔ reader "
                     f"{'with' if blk['transposed'] else 'without'} transpose", w, wpm_stmt(wpm, n),
                     f"{label}: {arr}[{a}, {b}] is written with `{order[0]}` as the outer loop, and the reader "
                     f"{'transposes' if blk['transposed'] else 'does not transpose'} the block it reads: the matrix comes "
                     f"back transposed (H(R) → H(R)^T)")
            # columns
            st = wpm_stmt(wpm, n)
            fmt = None
            for x in ast.walk(st):
                if isinstance(x, ast.JoinedStr) and any(x2 is n for x2 in ast.walk(x)):
                    fmt = x
                    break
                if isinstance(x, ast.Call) and isinstance(x.func, ast.Attribute) and x.func.attr == "format" \
                        and any(x2 is n for x2 in ast.walk(x)):
                    fmt = x
                    break
            if fmt is None:
                # "<prefix f-string>" + " ".join(f"{a.real} {a.imag}" for a in X[m, n]) + "\n"
                x = n
                while x in wpm and not isinstance(wpm[x], (ast.GeneratorExp, ast.ListComp)) or \
                        (x in wpm and isinstance(wpm[x], ast.GeneratorExp) and any(x2 is n for g_ in wpm[x].generators for x2 in ast.walk(g_.iter))):
                    x = wpm[x]
                    if isinstance(x, ast.BinOp) and isinstance(x.op, ast.Add):
                        left = x
                        while isinstance(left, ast.BinOp):
                            left = left.left
                        if isinstance(left, ast.JoinedStr):
                            fmt = left
                    if isinstance(x, ast.stmt):
                        break
            pos = _numeric_field_pos(fmt) if fmt is not None else None
            r3.instance(f"{label}/{arr}")
            if pos is None:
                raise AnalysisError(f"{label}: cannot locate the line format of {arr}")
            first, count = pos
            if count == 0:
                # vector block: "m n " + " ".join(f"{a.real} {a.imag}" for a in X[m, n]) → 3 components × (re, im)
                inner = [x for x in ast.walk(st) if isinstance(x, ast.JoinedStr) and ".real" in norm(x) and x is not fmt]
                count = 6 if inner and norm(inner[0]).index(".real") < norm(inner[0]).index(".imag") else -1
            r3.check(blk["lo"] == first and blk["hi"] - blk["lo"] == count,
                     f"{label}/{arr}: numeric fields at [{first}:{first + count}] = reader slice [{blk['lo']}:{blk['hi']}]",
                     r, blk["stmt"], f"{label}: the writer puts the numeric fields of {arr} at columns [{first}:{first + count}] "
                     f"but the reader takes split()[{blk['lo']}:{blk['hi']}]")
    # normalisation: the reader divides by the degeneracies it reads; the writer stores matrices already weighted, so the
    # degeneracies it writes (and multiplies with) must be all ones
    for (w, WS_), label in (((wtb, WTS), "_tb.dat"), ((whr, WHS), "_hr.dat")):
        ones = {s.targets[0].id for s in stmts(w.node) if isinstance(s, ast.Assign) and isinstance(s.targets[0], ast.Name)
                and isinstance(s.value, ast.Call) and call_name(s.value) in ("np.ones", "numpy.ones")}
        mult = []
        for n in ast.walk(w.node):
            if isinstance(n, ast.BinOp) and isinstance(n.op, ast.Mult):
                for x, y in ((n.left, n.right), (n.right, n.left)):
                    if isinstance(y, ast.Subscript) and isinstance(y.value, ast.Name) and isinstance(x, ast.Subscript) and norm(x.slice) == norm(y.slice) \
                            and any(t in norm(x.value) for t in ("Ham_R", "AA", "get_R_mat")):
                        mult.append(y.value.id)
        r2.check(bool(ones) and all(m in ones for m in mult), f"{label}: degeneracy weights written as ones (reader divides by them)", w, w.node,
                 f"{label}: the writer's degeneracy weights {sorted(set(mult)) or ''} are not an all-ones array while the matrices are stored already "
                 f"weighted", stmt="Ndegen")

    # ---------------------------------------------------------------- R18.4
    r4 = ctx.rule("R18.4", "npz directory: written ⊇ essential; loaded before use; names agree", min_instances=4)
    to_npz, TS = _prep(idx, idx.function(SR, "System_R.to_npz"), skip=("_R_mat_npz_filename",))
    load, LS = _prep(idx, idx.function(SR, "System_R.load_npz"), skip=("_R_mat_npz_filename",))
    ess = idx.function(SR, "System_R.essential_properties")
    lst = [s.value for s in stmts(ess.node) if isinstance(s, ast.Return)]
    if not lst or not isinstance(lst[0], ast.List):
        raise AnalysisError("System_R.essential_properties is not a literal list")
    essential = [e.value for e in lst[0].elts]
    r4.instance(f"{ess.short}: {essential}")
    TS.inline_helpers = False
    LS.inline_helpers = False

    def save_calls(fn):
        return [c for c in ast.walk(getattr(fn, "node", fn)) if isinstance(c, ast.Call) and call_name(c) in ("np.savez", "np.savez_compressed", "numpy.savez", "numpy.savez_compressed")]

    # (a) one <key>.npz per property of a loop over (a list containing) self.essential_properties
    prop_loops = []
    for lp in [s for s in stmts(to_npz.node) if isinstance(s, ast.For) and isinstance(s.target, ast.Name)]:
        k = lp.target.id
        sv = [c for c in save_calls(lp) if c.args]
        paths = [TS.rnorm(c.args[0], TS.du.node_of_expr(c)) for c in sv]
        if sv and all(re.search(rf"\b{k} \+ '\.npz'", p_) for p_ in paths):
            it = TS.rnorm(lp.iter, TS.cfg.node(lp))
            prop_loops.append((lp, it, sv))
    ess_loops = [x for x in prop_loops if "self.essential_properties" in x[1]]
    r4.check(len(ess_loops) == 1, "to_npz writes one <key>.npz per essential property", to_npz, to_npz.node,
             "to_npz no longer writes every essential property to <key>.npz", stmt="to_npz properties loop")
    if ess_loops:
        lp, it, sv = ess_loops[0]
        vals = []
        for c in sv:
            at_ = TS.du.node_of_expr(c)
            for a in c.args[1:]:
                vals += [norm(x) for x in TS.alternatives(a, at_)]
            for kw_ in c.keywords:
                if kw_.arg is None:
                    vals += ["**" + norm(x) for x in TS.alternatives(kw_.value, at_)]
        txt_loop = norm(lp)
        # values handed over through a private helper:  arrays, named = self._content(key);  np.savez(path, *arrays, **named)
        for c in sv:
            at_ = TS.du.node_of_expr(c)
            star = [(a.value, "") for a in c.args[1:] if isinstance(a, ast.Starred)] + [(k_.value, "**") for k_ in c.keywords if k_.arg is None]
            for sx, pre in star:
                if not isinstance(sx, ast.Name):
                    continue
                for d_ in TS.du.reaching(sx.id, at_):
                    if d_.kind in ("unpack", "assign") and isinstance(d_.value, ast.Call):
                        nm_ = d_.value.func.attr if isinstance(d_.value.func, ast.Attribute) else getattr(d_.value.func, "id", None)
                        h_ = idx.find_method(to_npz.cls, nm_) if nm_ and to_npz.cls is not None else None
                        if h_ is None:
                            continue
                        HS_ = Sem(idx, h_)
                        HS_.inline_helpers = False
                        txt_loop += " " + norm(h_.node)
                        for rv_, _cs, st_ in return_cases(HS_):
                            rr = HS_.resolve(rv_, HS_.cfg.node(st_))
                            part = rr.elts[d_.index] if d_.kind == "unpack" and isinstance(rr, ast.Tuple) and d_.index is not None and d_.index < len(rr.elts) else rr
                            if pre == "" and isinstance(part, (ast.Tuple, ast.List)):
                                vals += [norm(x) for x in part.elts]
                            else:
                                vals.append(pre + norm(part))
        if "iRvec" in essential:
            r4.check(any("self.rvec.iRvec" in v for v in vals) and "'iRvec'" in txt_loop, "to_npz special case iRvec", to_npz, lp,
                     "to_npz lost the special case for `iRvec` (the R-vector list lives in self.rvec)", stmt="to_npz iRvec")
        if "pointgroup" in essential:
            r4.check(any(v.startswith("**") and v.endswith(".as_dict()") for v in vals) and "'pointgroup'" in txt_loop, "to_npz special case pointgroup",
                     to_npz, lp, "to_npz lost the special case for `pointgroup` (saved through as_dict)", stmt="to_npz pointgroup")
        r4.check(any(v.startswith("**") and not v.endswith(".as_dict()") for v in vals) and "'cell'" in txt_loop, "to_npz special case cell", to_npz, lp,
                 "to_npz lost the special case for `cell` (a dict saved as keyword arrays)", stmt="to_npz cell")
    for need in ("real_lattice", "wannier_centers_cart", "iRvec"):
        r4.check(need in essential, f"`{need}` is essential (needed to rebuild the R-vectors)", ess, lst[0],
                 f"`{need}` is no longer saved by default: load_npz cannot rebuild the system", stmt=f"essential {need}")

    # (b) load order: lattice and centres first
    load_loops = []
    for lp in [s for s in stmts(load.node) if isinstance(s, ast.For) and isinstance(s.target, ast.Name)]:
        k = lp.target.id
        lds = [c for c in ast.walk(lp) if isinstance(c, ast.Call) and call_name(c) in ("np.load", "numpy.load") and c.args]
        if lds and all(re.search(rf"\b{k} \+ '\.npz'", LS.rnorm(c.args[0], LS.du.node_of_expr(c))) for c in lds):
            load_loops.append(lp)
    if len(load_loops) != 1:
        raise AnalysisError(f"load_npz: expected one loop loading <key>.npz files, found {len(load_loops)}")
    lp = load_loops[0]
    it = lp.iter
    while isinstance(it, ast.Call) and call_name(it) in ("dict.fromkeys", "list", "tuple", "iter") and len(it.args) == 1:
        it = it.args[0]
    segs = seq_segments(LS, it, LS.cfg.node(lp))
    first: List[str] = []
    if segs is not None:
        for kind, x, _a in segs:
            if kind == "el" and isinstance(x, ast.Constant) and isinstance(x.value, str):
                first.append(x.value)
            else:
                break
    r4.instance(f"{load.short}: loads {first} first")
    r4.check({"real_lattice", "wannier_centers_cart"} <= set(first),
             "real_lattice and wannier_centers_cart are loaded before iRvec", load, lp,
             f"load_npz processes the files in directory order (first: {first}); building Rvectors from iRvec needs the "
             f"lattice and the centres, which may not be loaded yet", stmt="load order")
    # (c) iRvec → Rvectors(lattice, iRvec, shifts)
    rvs = [c for c in calls(lp, "Rvectors")]
    okrv = False
    if len(rvs) == 1:
        a_l, a_i, a_s = kwarg(rvs[0], "lattice", 0), kwarg(rvs[0], "iRvec", 1), kwarg(rvs[0], "shifts_left_red", 2)
        st_rv = enclosing(LS.pm, rvs[0], ast.stmt)
        cds = [(t_, p_) for t_, p_, _ in LS.conditions(st_rv, resolve=False)]
        okrv = a_l is not None and norm(a_l) == "self.real_lattice" and a_s is not None and norm(a_s) == "self.wannier_centers_red" and a_i is not None \
            and any(("'iRvec'" in t_ or '"iRvec"' in t_) and p_ for t_, p_ in cds) and isinstance(st_rv, ast.Assign) and norm(st_rv.targets[0]) == "self.rvec"
    r4.check(okrv, "iRvec → Rvectors with the loaded lattice and centre shifts", load, rvs[0] if rvs else lp,
             "load_npz no longer rebuilds Rvectors from iRvec with the lattice and the centre shifts", stmt="iRvec → Rvectors")
    from ..sem import reachable_helpers as _rh18
    pgc = [c for root_ in [lp] + [h_.node for h_ in _rh18(idx, idx.function(SR, "System_R.load_npz"))] for c in calls(root_, "PointGroup")
           if kwarg(c, "dictionary", 3) is not None]
    sat = [c for c in ast.walk(lp) if isinstance(c, ast.Call) and call_name(c) == "setattr" and len(c.args) == 3 and norm(c.args[0]) == "self"]
    r4.check(bool(pgc) and bool(sat), "pointgroup/symgroup and plain arrays restored",
             load, lp, "load_npz no longer restores the point group / generic properties", stmt="setattr")
    # (d) R-matrix file names
    wr = [c for c in save_calls(to_npz) if c.args and "self._R_mat_npz_filename(" in TS.rnorm(c.args[0], TS.du.node_of_expr(c))]
    rr = [c for c in ast.walk(load.node) if isinstance(c, ast.Call) and call_name(c) in ("np.load", "numpy.load") and c.args
          and "self._R_mat_npz_filename(" in LS.rnorm(c.args[0], LS.du.node_of_expr(c))]
    r4.check(bool(wr) and bool(rr), "R-matrix file names go through _R_mat_npz_filename on both sides", load, load.node,
             "to_npz and load_npz build R-matrix file names differently", stmt="_R_mat_npz_filename")
    fn = idx.function(SR, "System_R._R_mat_npz_filename")
    FS = Sem(idx, fn)
    prefix = suffix = None
    flag = fn.params[2] if len(fn.params) > 2 else None
    for v, cs, st_ in return_cases(FS):
        if flag is not None and any(t_ == flag and not p_ for t_, p_ in cs):
            continue
        pieces = fold_str(FS.resolve(v, FS.cfg.node(st_)), {flag: True} if flag else {})
        if pieces is not None and len(pieces) == 3 and isinstance(pieces[0], str) and isinstance(pieces[2], str) and pieces[1] == ("sym", fn.params[1]):
            prefix, suffix = pieces[0], pieces[2]
    if prefix is None:
        raise AnalysisError("_R_mat_npz_filename: cannot fold the file name to <prefix> + key + <suffix>")
    # loader: glob pattern, prefix strip, filter of the property files
    mparam = next((p_ for p_ in load.params if p_ == "matrices"), None)
    mdefs = [s for s in stmts(load.node) if isinstance(s, ast.Assign) and is_name(s.targets[0], mparam or "matrices")]
    okp, why = False, "the default list of matrices is not derived from a directory listing"
    LS.inline_helpers = True
    if len(mdefs) == 1:
        at_ = LS.cfg.node(mdefs[0])
        rv = LS.resolve(mdefs[0].value, at_)
        globs = [c for c in ast.walk(rv) if isinstance(c, ast.Call) and call_name(c) == "glob.glob" and c.args]
        pat = None
        if len(globs) == 1:
            a0 = globs[0].args[0]
            if isinstance(a0, ast.Call) and call_name(a0) == "os.path.join" and len(a0.args) == 2:
                a0 = a0.args[1]
            p_ = fold_str(a0)
            pat = "".join(p_) if p_ is not None and all(isinstance(x, str) for x in p_) else None
        strips = [s_ for s_ in ast.walk(rv) if isinstance(s_, ast.Subscript) and isinstance(s_.slice, ast.Slice) and s_.slice.lower is not None
                  and s_.slice.upper is None and s_.slice.step is None]
        cut = None
        if len(strips) == 1:
            lo = strips[0].slice.lower
            cut = lo.value if isinstance(lo, ast.Constant) else None
            if cut is None and isinstance(lo, ast.Call) and call_name(lo) == "len" and lo.args:
                p2 = fold_str(lo.args[0])
                cut = len("".join(p2)) if p2 is not None and all(isinstance(x, str) for x in p2) else None
        okp = pat == prefix + "*" + suffix and cut == len(prefix)
        why = f"glob pattern {pat!r}, strips {cut} characters; the writer's names are {prefix!r} + key + {suffix!r}"
    sw = [c for c in ast.walk(load.node) if isinstance(c, ast.Call) and isinstance(c.func, ast.Attribute) and c.func.attr == "startswith" and len(c.args) == 1]
    sw_ok = False
    for c in sw:
        try:
            p3 = fold_str(LS.resolve(c.args[0], LS.du.node_of_expr(c)))
        except AnalysisError:
            p3 = fold_str(c.args[0])
        if p3 is not None and p3 == [prefix]:
            sw_ok = True
    r4.check(okp and sw_ok, f"load_npz recognises R-matrix files by the writer's prefix {prefix!r}", load, mdefs[0] if mdefs else load.node,
             f"load_npz's glob/prefix-strip/filter does not match the writer's file names ({why}; property filter on the prefix: {sw_ok})", stmt="prefix")
    LS.inline_helpers = False
    check_pointgroup_serialisation(ctx)
    check_reduced_shifts(ctx)
    check_reader_writer_parameters(ctx)
    check_chunked_blocks(ctx)
    check_shift_ownership(ctx)
    from ..taint import returning_listing_order
    ot = OrderTaint(load.node, LS.du, extra_sources=returning_listing_order(idx, [SR]))
    for s in ot.sources:
        r4.instance(f"{load.short}: {norm1(s, 60)}")
    r4.expect(bool(ot.sources), "directory listing located", load, load.node, "load_npz: no directory listing (glob / listdir) found")
    sk = ot.sinks()
    r4.check(not sk, "directory listings in load_npz are used order-insensitively", load,
             enclosing(LS.pm, sk[0][0], ast.stmt) if sk else load.node,
             f"load_npz takes `{norm1(sk[0][0], 60)}` positionally from a directory listing" if sk else "")


def check_chunked_blocks(ctx) -> None:
    """R18.8 — the degeneracy header of _hr.dat / _tb.dat is written in chunks of k entries per line; the readers consume lines only
    until N entries are read.  The writer must therefore emit every entry exactly once and never an empty chunk (an empty line
    after the block is taken for the first line of the next block).  Decided from the loop header and the slice bounds."""
    from .chunks import decide_block_loop
    idx = ctx.index
    r8 = ctx.rule("R18.8", "chunked header blocks: every entry once, no empty chunk", min_instances=2)
    for rel, name in ((HR, "write_hr_file"), (TB, "write_tb_file")):
        f0 = idx.function(rel, name)
        f = inline_private_helpers(idx, f0)
        S = Sem(idx, f)
        found = 0
        for lp in [x for x in ast.walk(f.node) if isinstance(x, ast.For)]:
            wr = [c for st in lp.body for c in ast.walk(st) if isinstance(c, ast.Call) and isinstance(c.func, ast.Attribute) and c.func.attr == "write"]
            if not wr:
                continue
            # N = number of entries of the chunked array
            arrs = {x.value.id for st in lp.body for x in ast.walk(st) if isinstance(x, ast.Subscript) and isinstance(x.slice, ast.Slice) and isinstance(x.value, ast.Name)}
            cands = set()
            for a_ in arrs:
                cands |= {f"len({a_})", f"{a_}.shape[0]", f"{a_}.size"}
                arr = S.resolve(ast.Name(id=a_, ctx=ast.Load()), S.cfg.node(lp))
                if isinstance(arr, ast.Call) and call_name(arr) in ("np.ones", "np.zeros", "np.empty", "np.full", "np.arange") and arr.args:
                    cands.add(norm(arr.args[0]))
            res = decide_block_loop(S, lp, cands)
            if res is None:
                continue
            verdict, why, desc = res
            found += 1
            r8.instance(f"{f0.short}: {desc}")
            if verdict is None:
                r8.expect(False, "", f0, lp, f"{f0.qualname}: chunked write `{desc}` is not in a form whose chunk count can be decided")
            else:
                r8.check(verdict, "every entry is written exactly once and no chunk is empty", f0, lp,
                         why + " — the reader stops after N entries and takes the empty line that follows the block for the first line of the next block"
                         if "empty" in why else why)
        r8.expect(found >= 1, f"{name}: chunked header located", f0, f0.node, f"{f0.qualname}: the chunked degeneracy header (k entries per line) was not found")


def check_shift_ownership(ctx) -> None:
    """R18.9 — the R-vectors a reader leaves on the system carry both centre shifts.  Rvectors.__init__ aliases the right shifts to
    the left ones only at construction, so (a) an Rvectors object stored as `<system>.rvec` must be constructed with the centres
    (shifts_left_red=…), and (b) outside class Rvectors the two shift attributes are only ever assigned together."""
    idx = ctx.index
    r9 = ctx.rule("R18.9", "R-vectors kept on a system are constructed with the centre shifts; shift attributes change only in pairs", min_instances=8)
    for f in idx.all_functions():
        if not f.module.relpath.startswith("wannierberri/"):
            continue
        in_rvectors = f.cls is not None and f.cls.name == "Rvectors"
        # (b)
        if not in_rvectors:
            recv: Dict[str, set] = {}
            node_of: Dict[str, ast.AST] = {}
            for st in ast.walk(f.node):
                tgts = st.targets if isinstance(st, ast.Assign) else [st.target] if isinstance(st, (ast.AugAssign, ast.AnnAssign)) else []
                for t in tgts:
                    for x in (t.elts if isinstance(t, ast.Tuple) else [t]):
                        if isinstance(x, ast.Attribute) and x.attr in ("shifts_left_red", "shifts_right_red"):
                            recv.setdefault(norm(x.value), set()).add(x.attr)
                            node_of.setdefault(norm(x.value), st)
            for rc, attrs in recv.items():
                r9.instance(f"{f.short}: {rc}.{{{', '.join(sorted(attrs))}}} assigned")
                r9.check(len(attrs) == 2, f"{rc}: both shift attributes are assigned", f, node_of[rc],
                         f"`{rc}.{sorted(attrs)[0]}` is assigned outside class Rvectors without its partner: the other side keeps the array it was aliased to "
                         f"at construction, so R + τj − τi is built from stale centres (matrices and bands unchanged, Berry-type quantities wrong)")
        # (a)
        if not f.module.relpath.startswith("wannierberri/system/"):
            continue
        FS = None
        for st in ast.walk(f.node):
            if not (isinstance(st, ast.Assign) and len(st.targets) == 1 and isinstance(st.targets[0], ast.Attribute) and st.targets[0].attr == "rvec"):
                continue
            v = st.value
            if isinstance(v, ast.Name):
                FS = FS or Sem(idx, f)
                FS.inline_helpers = False
                v = FS.resolve(v, FS.cfg.node(st))
            if not (isinstance(v, ast.Call) and call_name(v).split(".")[-1] == "Rvectors"):
                continue
            r9.instance(f"{f.short}: {norm1(st, 70)}")
            kv = next((k.value for k in v.keywords if k.arg == "shifts_left_red"), v.args[1] if len(v.args) > 1 else None)
            r9.check(kv is not None and not (isinstance(kv, ast.Constant) and kv.value is None), "stored R-vectors are constructed with shifts_left_red", f, st,
                     f"`{norm1(st, 80)}` keeps an Rvectors object built without the Wannier centres on the system: both shifts are the zero placeholder "
                     f"unless every later step replaces both of them")


def check_reader_writer_parameters(ctx) -> None:
    """R18.7 — the options of the file readers / writers are honoured: every parameter is read somewhere, and a `convention`
    flag decides (is in the path condition of) the statement that moves the Wannier centres into / out of the diagonal of AA(R=0)."""
    idx = ctx.index
    r7 = ctx.rule("R18.7", "reader / writer options are honoured (no ignored parameter; convention flags guard the centre shift)", min_instances=6)
    funcs = [(TB, "get_system_tb"), (TB, "write_tb_file"), (HR, "get_system_hr"), (HR, "write_hr_file"), (SR, "System_R.to_npz"), (SR, "System_R.load_npz")]
    for rel, q in funcs:
        f0 = idx.function(rel, q)
        r7.instance(f0.short)
        loads = {n.id for n in ast.walk(f0.node) if isinstance(n, ast.Name) and isinstance(n.ctx, ast.Load)}
        unused = [p_ for p_ in f0.params if p_ not in loads and p_ not in ("self", "cls")]
        r7.check(not unused, f"{f0.qualname}: every parameter is read", f0, f0.node,
                 f"{f0.qualname} never reads its parameter(s) {unused}: the documented option has no effect (a default is used instead)",
                 stmt=f"unused {unused}")
        conv = [p_ for p_ in f0.params if "convention" in p_.lower()]
        if not conv:
            continue
        g, GS = _prep(idx, f0)
        shifts = [s_ for s_ in stmts(g.node) if isinstance(s_, ast.AugAssign) and isinstance(s_.op, (ast.Add, ast.Sub))
                  and any(isinstance(n_, (ast.Name, ast.Attribute)) and norm(n_).split(".")[-1].split("__")[0] == "wannier_centers_cart" for n_ in ast.walk(s_.value))]
        r7.expect(bool(shifts), f"{f0.qualname}: centre shift located", f0, f0.node,
                  f"{f0.qualname}: the statement that adds / subtracts the Wannier centres on the diagonal of AA(R=0) was not found (also not in inlined helpers)")
        for s_ in shifts:
            cds = [(t_, p_) for t_, p_, _ in GS.conditions(s_, resolve=True)] + [(t_, p_) for t_, p_, _ in GS.conditions(s_, resolve=False)]
            r7.check(any(t_ in conv and p_ for t_, p_ in cds), f"{f0.qualname}: the centre shift is decided by `{conv[0]}`", f0, s_,
                     f"`{norm1(s_, 80)}` is executed under {[t_ for t_, p_ in cds] or 'no condition'}, not under the caller's `{conv[0]}`: "
                     f"the option is ignored, so a round trip in the other convention leaves the centres on the diagonal of AA(R=0) with the wrong sign",
                     stmt=f"centre shift not guarded by {conv[0]}")


def check_reduced_shifts(ctx) -> None:
    """R18.6 — every Rvectors(...) built by a system reader / constructor receives the Wannier centres in REDUCED coordinates
    (`shifts_*_red=<…>_red`): a Cartesian array in that slot leaves the stored data and the bands intact but shifts every
    R + τj − τi, so the reloaded system has a different Berry curvature."""
    idx = ctx.index
    r6 = ctx.rule("R18.6", "Rvectors are built with reduced-coordinate centre shifts", min_instances=8)
    for f in idx.all_functions():
        if not f.module.relpath.startswith("wannierberri/system/"):
            continue
        cs = [c for c in calls(f.node, "Rvectors") if call_name(c).split(".")[-1] == "Rvectors"]
        if not cs:
            continue
        FS = Sem(idx, f)
        FS.inline_helpers = False
        for c in cs:
            for kw_name, pos in (("shifts_left_red", 1), ("shifts_right_red", 2)):
                v = next((k.value for k in c.keywords if k.arg == kw_name), None)
                if v is None or (isinstance(v, ast.Constant) and v.value is None):
                    continue
                r6.instance(f"{f.short}: {kw_name}={norm1(v, 50)}")
                ids = []
                for root in (v, FS.resolve(v, FS.du.node_of_expr(c))):
                    for n in ast.walk(root):
                        if isinstance(n, ast.Attribute):
                            ids.append(n.attr)
                        elif isinstance(n, ast.Name):
                            ids.append(n.id)
                cart = [x for x in ids if x.endswith("_cart")]
                red = [x for x in ids if x.endswith("_red")]
                r6.check(not cart and bool(red), f"{kw_name} receives reduced coordinates", f, c,
                         f"`{kw_name}={norm1(v, 60)}`: a quantity in Cartesian coordinates ({cart or 'no *_red quantity'}) is passed where reduced "
                         f"coordinates are expected; stored matrices and bands are unchanged but the centre shifts of every R-vector are wrong",
                         stmt=f"{kw_name}={norm1(v, 60)}")


def check_pointgroup_serialisation(ctx) -> None:
    """R18.5 — PointGroup.as_dict ↔ PointGroup(dictionary=…) and PointSymmetry.as_dict ↔ PointSymmetry(**d)."""
    idx = ctx.index
    r5 = ctx.rule("R18.5", "point-group serialisation: every key is written from the attribute the reader restores it to", min_instances=2)
    pg = idx.cls(PS, "PointGroup")
    ps = idx.cls(PS, "PointSymmetry")
    wd = pg.methods.get("as_dict")
    ini = pg.methods.get("__init__")
    if wd is None or ini is None:
        raise AnalysisError("PointGroup.as_dict/__init__ vanished")
    r5.instance(wd.short)
    WS = Sem(idx, wd)
    rets = [s for s in stmts(wd.node) if isinstance(s, ast.Return) and s.value is not None]
    if len(rets) != 1:
        raise AnalysisError("PointGroup.as_dict: expected one return")
    ent = dict_entries(WS, rets[0].value, WS.cfg.node(rets[0]))
    if ent is None:
        raise AnalysisError("PointGroup.as_dict: the returned dict is not built from displays / stores / update() the checker understands")
    written = {e.const_key: e for e in ent if e.const_key is not None}
    per_op = [e for e in ent if e.const_key is None]
    # reader: dictionary['key'] → constructor keyword
    IS = Sem(idx, ini)
    reads = {}
    for c in ast.walk(ini.node):
        if isinstance(c, ast.Call) and norm(c.func) == "self.__init__":
            for k in c.keywords:
                v = IS.resolve(k.value, IS.du.node_of_expr(c)) if k.arg else None
                if isinstance(v, ast.Subscript) and norm(v.value) == "dictionary" and isinstance(v.slice, ast.Constant):
                    reads[v.slice.value] = k.arg
    # number of operations
    nsym_reads = [n for n in ast.walk(ini.node) if isinstance(n, ast.Subscript) and norm(n.value) == "dictionary" and const_of(n.slice) == "nsym"]
    wn = written.get("nsym")
    r5.check(bool(nsym_reads) and wn is not None and norm(wn.value) == "len(self.symmetries)",
             "number of operations written and read under 'nsym'", wd, wn.node if wn is not None else wd.node, "`nsym` is not written/read consistently",
             stmt="nsym")
    for key, param in reads.items():
        e = written.get(key)
        v = e.value if e is not None else None
        r5.check(v is not None and norm(v) == f"self.{param}", f"key {key!r} ← self.{param} → constructor parameter {param}", wd,
                 wd.node if e is None else e.node,
                 f"PointGroup.as_dict stores `{norm1(v) if v is not None else None}` under the key {key!r}, which the loader passes as "
                 f"`{param}=`: a reloaded point group gets a different {param} (operations are then applied in the wrong basis)",
                 stmt=f"{key}={norm1(v) if v is not None else None}")
    if not reads:
        raise AnalysisError("PointGroup.__init__: dictionary branch does not pass dictionary[...] to the constructor")
    # per-operation entries: key = PREFIX(i) + k for (k, v) in symmetries[i].as_dict()  ↔  k[len(PREFIX(i)):] for k startswith PREFIX(i)
    okw, pw, wi = False, None, None
    if len(per_op) == 1:
        e = per_op[0]
        if isinstance(e.key, ast.BinOp) and isinstance(e.key.op, ast.Add) and isinstance(e.key.right, ast.Name):
            kv = e.key.right.id
            pw = e.key.left
            ivars = [n.id for n in ast.walk(pw) if isinstance(n, ast.Name) and n.id != "self"]
            if len(set(ivars)) == 1:
                wi = ivars[0]
                okw = norm(e.value) == f"self.symmetries[{wi}].as_dict()[{kv}]"
                if not okw and isinstance(e.value, ast.Name):
                    for t, it in e.loops:
                        if isinstance(t, ast.Tuple) and [norm(x) for x in t.elts] == [kv, e.value.id]:
                            try:
                                it_r = WS.rnorm(it, WS.du.node_of_expr(it))
                            except AnalysisError:
                                it_r = norm(it)
                            okw = it_r == f"self.symmetries[{wi}].as_dict().items()"
    rd_calls = [c for c in ast.walk(ini.node) if isinstance(c, ast.Call) and call_name(c) == "PointSymmetry" and any(k.arg is None for k in c.keywords)]
    okr, pr = False, None
    if len(rd_calls) == 1:
        dv = next(k.value for k in rd_calls[0].keywords if k.arg is None)
        re_ = dict_entries(IS, dv, IS.du.node_of_expr(rd_calls[0]))
        if re_ is not None and len(re_) == 1:
            e = re_[0]
            m = pmatch(e.key, "K_[len(P_):]", {"K_", "P_"})
            if m and m[0][0] is e.key:
                kk, pr_txt = m[0][1]["K_"], m[0][1]["P_"]
                pr = pr_txt
                conds = []
                for c in e.conds:
                    try:
                        conds.append(IS.rnorm(c, IS.du.node_of_expr(c)))
                    except AnalysisError:
                        conds.append(norm(c))
                ri = [n.id for n in ast.walk(ast.parse(pr_txt, mode="eval")) if isinstance(n, ast.Name) and n.id != "self"]
                rng_ok = False
                for t, it in e.loops:
                    if ri and norm(t) == ri[0]:
                        try:
                            rng_ok = IS.rnorm(it, IS.du.node_of_expr(it)) == "range(dictionary['nsym'])"
                        except AnalysisError:
                            rng_ok = False
                val_ok = norm(e.value) == f"dictionary[{kk}]"
                if not val_ok and isinstance(e.value, ast.Name):
                    val_ok = any(isinstance(t, ast.Tuple) and [norm(x) for x in t.elts] == [kk, e.value.id] and norm(it) == "dictionary.items()" for t, it in e.loops)
                okr = val_ok and f"{kk}.startswith({pr_txt})" in conds and len(set(ri)) == 1 and rng_ok
    same_prefix = False
    if okw and okr and wi is not None:
        ri0 = [n.id for n in ast.walk(ast.parse(pr, mode="eval")) if isinstance(n, ast.Name) and n.id != "self"][0]
        same_prefix = re.sub(rf"\b{wi}\b", "I", norm(pw)) == re.sub(rf"\b{ri0}\b", "I", pr)
    if not (okw and okr):
        r5.expect(False, "", wd if not okw else ini, per_op[0].node if per_op and not okw else ini.node,
                  f"point-group (de)serialisation: the {'writer' if not okw else 'reader'} of the per-operation keys is not in a form the checker understands "
                  f"(writer: key = prefix(i) + k for (k, v) in symmetries[i].as_dict(); reader: k[len(prefix(i)):] for k.startswith(prefix(i)), i in range(nsym))")
    else:
      r5.check(same_prefix, "per-operation keys use one prefix on both sides; entry i ↔ operation i", wd, per_op[0].node if per_op else wd.node,
             f"per-operation key prefix / indexing differs between writer and reader (writer `{norm1(pw) if pw is not None else None}` ok={okw}; "
             f"reader `{pr}` ok={okr})", stmt="symm prefix")
    sw = ps.methods.get("as_dict")
    si = ps.methods.get("__init__")
    r5.instance(sw.short)
    SS = Sem(idx, sw)
    srets = [s for s in stmts(sw.node) if isinstance(s, ast.Return) and s.value is not None]
    sent = dict_entries(SS, srets[0].value, SS.cfg.node(srets[0])) if len(srets) == 1 else None
    if sent is None or any(e.const_key is None for e in sent):
        raise AnalysisError("PointSymmetry.as_dict: the returned dict is not a display / dict(...) with constant keys")
    keys = {e.const_key: norm(e.value) for e in sent}
    r5.check(set(keys) <= set(si.params[1:]) and set(keys) == {"R", "TR"}, f"operation keys {sorted(keys)} are constructor parameters", sw,
             srets[0], f"PointSymmetry.as_dict writes {sorted(keys)} but PointSymmetry(**d) accepts {si.params[1:]}",
             stmt=f"keys {sorted(keys)}")
    tsi = norm(si.node)
    SIS = Sem(idx, si)
    rstore = [s for s in stmts(si.node) if isinstance(s, ast.Assign) and norm(s.targets[0]) == "self.R"]
    istore = [s for s in stmts(si.node) if isinstance(s, ast.Assign) and norm(s.targets[0]) == "self.Inv"]
    fold_forms = ("self.R * (-1 if self.Inv else 1)", "(-1 if self.Inv else 1) * self.R", "-self.R if self.Inv else self.R")
    split_forms = ("R * (-1 if self.Inv else 1)", "(-1 if self.Inv else 1) * R", "-R if self.Inv else R")
    r5.check(keys.get("R") in fold_forms and len(rstore) == 1 and SIS.rnorm(rstore[0].value, SIS.cfg.node(rstore[0])).replace("np.linalg.det(R) < 0", "self.Inv") in split_forms
             and len(istore) == 1 and norm(istore[0].value) == "np.linalg.det(R) < 0" and keys.get("TR") == "self.TR",
             "the improper sign folded into R on write is split off again on read", sw, srets[0],
             f"PointSymmetry.as_dict writes R as `{keys.get('R')}` / TR as `{keys.get('TR')}`: the inversion part of an operation is not "
             f"restored by PointSymmetry.__init__", stmt=f"R={keys.get('R')}")


def wpm_stmt(pm, n):
    return enclosing(pm, n, ast.stmt)


from ..selftest import V  # noqa: E402

SELFTEST = [
    V("WT centre file read with np.loadtxt (seeded C18-m7)", HR, "    data = np.array([[float(x) for x in line.split()] for line in r.readlines()])\n",
      "    data = np.loadtxt(seedname + \"_wannier_centre_WT_format.dat\")\n", "fire", "R18.1"),
    V("WT centre file read with np.loadtxt(ndmin=2)", HR, "    data = np.array([[float(x) for x in line.split()] for line in r.readlines()])\n",
      "    data = np.loadtxt(seedname + \"_wannier_centre_WT_format.dat\", ndmin=2)\n", "silent", "R18.1"),
    V("hr header written in N // 15 + 1 chunks (seeded C18-m5)", HR, "    for i in range(0, system.rvec.nRvec, 15):\n        a = Ndegen[i:min(i + 15, system.rvec.nRvec)]",
      "    for i in range(system.rvec.nRvec // 15 + 1):\n        a = Ndegen[15 * i:15 * (i + 1)]", "fire", "R18.8"),
    V("tb header chunks by ceil division", TB, "    for i in range(0, system.rvec.nRvec, 15):\n        a = Ndegen[i:min(i + 15, system.rvec.nRvec)]",
      "    for i in range((system.rvec.nRvec + 14) // 15):\n        a = Ndegen[15 * i:15 * (i + 1)]", "silent", "R18.8"),
    V("tb header chunks drop the remainder", TB, "    for i in range(0, system.rvec.nRvec, 15):\n        a = Ndegen[i:min(i + 15, system.rvec.nRvec)]",
      "    for i in range(system.rvec.nRvec // 15):\n        a = Ndegen[15 * i:15 * (i + 1)]", "fire", "R18.8"),
    V("tb reader keeps shift-less R-vectors and patches the left shifts only (seeded C18-m6)", TB,
      "    system.rvec = Rvectors(\n        lattice=system.real_lattice,\n        iRvec=iRvec,\n        shifts_left_red=system.wannier_centers_red,\n    )\n",
      "    system.rvec = Rvectors(lattice=system.real_lattice, iRvec=iRvec)\n    system.rvec.shifts_left_red = system.wannier_centers_red\n", "fire", "R18.9"),
    V("reader splits at n//2 (original defect: odd n)", HR,
      "    nup = (data.shape[0] + 1) // 2\n    data_2[::2] = data[:nup]\n    data_2[1::2] = data[nup:]\n",
      "    data_2[::2] = data[:data.shape[0] // 2]\n    data_2[1::2] = data[data.shape[0] // 2:]\n", "fire", "R18.1"),
    V("reader interleaves the halves the other way round", HR,
      "    data_2[::2] = data[:nup]\n    data_2[1::2] = data[nup:]\n", "    data_2[1::2] = data[:nup]\n    data_2[::2] = data[nup:]\n",
      "fire", "R18.1"),
    V("writer drops the last centre of the second half", HR,
      "def write_WCC_WT_format(seedname, wannier_centers_cart):\n    r = open(seedname + \"_wannier_centre_WT_format.dat\", \"w\")\n    data = wannier_centers_cart\n    for i in data[::2]:",
      "def write_WCC_WT_format(seedname, wannier_centers_cart):\n    r = open(seedname + \"_wannier_centre_WT_format.dat\", \"w\")\n    data = wannier_centers_cart\n    for i in data[:-1:2]:",
      "fire", "R18.1"),
    V("tb writer loops swapped (m outer)", TB,
      "                f\"{m + 1:3d} {n + 1:3d} {_ham[m, n].real:15.8e} {_ham[m, n].imag:15.8e}\\n\"\n                for n in system.range_wann for m in system.range_wann)",
      "                f\"{m + 1:3d} {n + 1:3d} {_ham[m, n].real:15.8e} {_ham[m, n].imag:15.8e}\\n\"\n                for m in system.range_wann for n in system.range_wann)",
      "fire", "R18.2"),
    V("tb reader forgets the transpose of H", TB,
      "            dtype=float).transpose((1, 0, 2))\n        Ham_R[ir] = (hh[:, :, 0] + 1j * hh[:, :, 1]) / Ndegen[ir]\n    system.set_R_mat('Ham', Ham_R)\n    iRvec = np.array(iRvec, dtype=int)\n    iR0",
      "            dtype=float)\n        Ham_R[ir] = (hh[:, :, 0] + 1j * hh[:, :, 1]) / Ndegen[ir]\n    system.set_R_mat('Ham', Ham_R)\n    iRvec = np.array(iRvec, dtype=int)\n    iR0",
      "fire", "R18.2"),
    V("hr writer writes the transposed element", HR, "m + 1, n + 1, _ham[m, n].real, _ham[m, n].imag)",
      "m + 1, n + 1, _ham[n, m].real, _ham[n, m].imag)", "fire", "R18.2"),
    V("hr reader takes the wrong columns", HR, "f.readline().split()[5:7]", "f.readline().split()[4:6]", "fire", "R18.3"),
    V("AA reader takes too few columns", TB,
      "                [[f.readline().split()[2:8] for _ in range(system.num_wann)] for _ in range(system.num_wann)],\n                dtype=float)\n            AA_R[ir]",
      "                [[f.readline().split()[2:6] for _ in range(system.num_wann)] for _ in range(system.num_wann)],\n                dtype=float)\n            AA_R[ir]",
      "fire", "R18.3"),
    V("centres no longer loaded first", SR, "properties = [\"real_lattice\", \"wannier_centers_cart\"] + properties",
      "properties = [\"real_lattice\"] + properties", "fire", "R18.4"),
    V("forced properties appended after the directory listing", SR, "properties = [\"real_lattice\", \"wannier_centers_cart\"] + properties",
      "properties = properties + [\"real_lattice\", \"wannier_centers_cart\"]", "fire", "R18.4"),
    V("R-matrix prefix changed on the writer side only", SR, "            return \"_XX_R_\" + key + \".npz\"", "            return \"_XX_R-\" + key + \".npz\"",
      "fire", "R18.4"),
    V("loader strips one character too few", SR, "[os.path.splitext(os.path.split(x)[-1])[0][6:] for x in R_files]",
      "[os.path.splitext(os.path.split(x)[-1])[0][5:] for x in R_files]", "fire", "R18.4"),
    V("iRvec dropped from the essential list", SR, "['num_wann', 'real_lattice', 'iRvec', 'periodic',", "['num_wann', 'real_lattice', 'periodic',",
      "fire", "R18.4"),
    V("Rvectors rebuilt without the centre shifts", SR, "                                     shifts_left_red=self.wannier_centers_red\n", "", "fire", "R18.4"),
    V("point group saved with the reciprocal lattice (seeded C18-m2)", PS,
      "ret = dict(real_lattice=self.real_lattice,", "ret = dict(real_lattice=self.recip_lattice,", "fire", "R18.5"),
    V("inversion sign not folded into the saved rotation", PS,
      "return dict(R=self.R * (-1 if self.Inv else 1), TR=self.TR)", "return dict(R=self.R, TR=self.TR)", "fire", "R18.5"),
    V("operation i saved under the prefix of operation i+1", PS, "ret[self._symm_dict_prefix(i) + k] = v", "ret[self._symm_dict_prefix(i + 1) + k] = v",
      "fire", "R18.5"),
    V("hr reader builds Rvectors with Cartesian centres (seeded C18-m4)", HR, "        shifts_left_red=system.wannier_centers_red,", "        shifts_left_red=system.wannier_centers_cart,", "fire", "R18.6"),
    V("convention flag of the tb reader ignored", TB, "        if convention_II_to_I:\n            # convert to convention I\n", "        if True:\n            # convert to convention I\n", "fire", "R18.7"),
    V("neutral: reader split via len()", HR, "nup = (data.shape[0] + 1) // 2", "nup = (len(data) + 1) // 2", "silent"),
    V("neutral: reader split spelled n - n//2", HR, "nup = (data.shape[0] + 1) // 2", "nup = data.shape[0] - data.shape[0] // 2", "silent"),
    V("neutral: as_dict built from a display and update()", PS,
      "        ret = dict(real_lattice=self.real_lattice,\n                   nsym=nsym)\n        for i, s in enumerate(self.symmetries):\n            for k, v in s.as_dict().items():\n                ret[self._symm_dict_prefix(i) + k] = v\n",
      "        ret = {'real_lattice': self.real_lattice, 'nsym': nsym}\n        for i, s in enumerate(self.symmetries):\n            p = self._symm_dict_prefix(i)\n            ret.update({p + k: v for k, v in s.as_dict().items()})\n",
      "silent"),
    V("neutral: load order through dict.fromkeys", SR,
      "        properties = [\"real_lattice\", \"wannier_centers_cart\"] + properties\n        keys_processed = set()\n        for key in properties:\n            if key in keys_processed:\n                continue\n",
      "        for key in dict.fromkeys([\"real_lattice\", \"wannier_centers_cart\"] + properties):\n", "silent"),
]
