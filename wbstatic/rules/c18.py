"""C18 — system files round-trip (structural clauses).

R18.1 Wannier-centre WT file: the reader's split/interleave has equal lengths on both sides for every n (odd and even)
      and inverts the writer's de-interleave.
R18.2 matrix element order: writer loop nest + written element ↔ reader comprehension nest + transpose (tb, hr, AA).
R18.3 column positions: numeric fields of the writer's format ↔ reader's split()[a:b].
R18.4 npz directory: every essential property is written and consumed; R-matrix file names agree; lattice and centres
      are loaded before the R-vectors that need them; directory listing is used order-insensitively.
"""
from __future__ import annotations

import ast
import re
from typing import Dict, List, Optional, Tuple

from ..index import AnalysisError, call_name, dotted, norm, norm1, names_in
from ..taint import OrderTaint
from .common import calls, enclosing, enclosing_all, fctx, is_name, method_calls, stmts

LEVEL = "other"
EXPLANATION = (
    "Writer/reader agreement decided on syntax: (R18.1) the slice expressions of write_WCC_WT_format / write_hr_file and "
    "read_WCC_WT_format are constant-folded over n = 0..9 (slice lengths are 2-periodic in n, so both parities are "
    "covered) — every slice assignment must have equal lengths on both sides and the reader must invert the writer; "
    "(R18.2) the writer's iteration order and written element index are composed with the reader's nested comprehension "
    "and transpose; (R18.3) the position of the first numeric field in the writer's format equals the reader's split "
    "slice; (R18.4) the property lists of to_npz/load_npz are folded from the class bodies and compared, R-matrix names go "
    "through one helper on both sides, and the directory listing in load_npz has no order-dependent use. Not decided: "
    "numeric precision of the text formats, equality of bands.")

HR = "wannierberri/system/system_hr.py"
TB = "wannierberri/system/system_tb.py"
SR = "wannierberri/system/system_R.py"


def _eval_int(e: ast.AST, n: int, seqnames) -> int:
    if isinstance(e, ast.Constant) and isinstance(e.value, int):
        return e.value
    t = norm(e).replace(" ", "")
    for s in seqnames:
        if t in (f"{s}.shape[0]", f"len({s})"):
            return n
    if isinstance(e, ast.BinOp):
        a, b = _eval_int(e.left, n, seqnames), _eval_int(e.right, n, seqnames)
        if isinstance(e.op, ast.Add):
            return a + b
        if isinstance(e.op, ast.Sub):
            return a - b
        if isinstance(e.op, ast.Mult):
            return a * b
        if isinstance(e.op, ast.FloorDiv):
            return a // b
    if isinstance(e, ast.UnaryOp) and isinstance(e.op, ast.USub):
        return -_eval_int(e.operand, n, seqnames)
    raise AnalysisError(f"slice bound outside the integer subset: {norm1(e)}")


def _slice_indices(sl: ast.AST, n: int, seqnames, du=None, at=None) -> List[int]:
    if not isinstance(sl, ast.Slice):
        raise AnalysisError(f"not a slice: {norm1(sl)}")

    def ev(x):
        if x is None:
            return None
        if du is not None and isinstance(x, ast.Name):
            x = du.resolve_local(x, at)
        return _eval_int(x, n, seqnames)
    return list(range(n))[slice(ev(sl.lower), ev(sl.upper), ev(sl.step))]


def _wt_writer_slices(f) -> List[List[ast.AST]]:
    """The slices of the centre array iterated by consecutive `for i in data[S]:` loops that write lines."""
    out = []
    for s in stmts(f.node):
        if isinstance(s, ast.For) and isinstance(s.iter, ast.Subscript) and isinstance(s.iter.slice, ast.Slice) \
                and method_calls(s, "write"):
            out.append(s)
    return out


def _elem_and_order(root: ast.AST, pm, arrname_re=r"^_?(ham|aa|AA|Ham)\w*$"):
    """Find `X[a, b]` (two Name indices) in a written expression; return (a, b, iteration order outer→inner, node)."""
    res = []
    for n in ast.walk(root):
        if isinstance(n, ast.Subscript) and isinstance(n.slice, ast.Tuple) and len(n.slice.elts) == 2 \
                and all(isinstance(x, ast.Name) for x in n.slice.elts) and isinstance(n.value, ast.Name) \
                and re.match(arrname_re, n.value.id):
            a, b = n.slice.elts[0].id, n.slice.elts[1].id
            order: List[str] = []
            # comprehension generators enclosing n (first generator = outer)
            x = n
            comp = None
            while x in pm:
                x = pm[x]
                if isinstance(x, (ast.GeneratorExp, ast.ListComp)):
                    gens = [g.target.id for g in x.generators if isinstance(g.target, ast.Name)]
                    if a in gens and b in gens:
                        comp = gens
                        break
            if comp is not None:
                order = [g for g in comp if g in (a, b)]
            else:
                loops = [fl.target.id for fl in reversed(enclosing_all(pm, n, ast.For)) if isinstance(fl.target, ast.Name)]
                order = [g for g in loops if g in (a, b)]
            if len(order) == 2:
                res.append((a, b, order, n))
    return res


def _reader_blocks(f):
    """Nested-comprehension reads `[[f.readline().split()[a:b] for _ in range(N)] for _ in range(N)]`."""
    cfg, du, pm = fctx(f)
    out = []
    for n in ast.walk(f.node):
        if isinstance(n, ast.ListComp) and isinstance(n.elt, ast.ListComp) and isinstance(n.elt.elt, ast.Subscript) \
                and "readline().split()" in norm(n.elt.elt.value) and isinstance(n.elt.elt.slice, ast.Slice):
            sl = n.elt.elt.slice
            lo, hi = sl.lower.value, sl.upper.value
            st = enclosing(pm, n, ast.stmt)
            # transposition (1,0,2) applied in this statement or to the assigned name in the following statements
            txt = norm(st)
            transposed = "transpose((1, 0, 2))" in txt
            if not transposed and isinstance(st, ast.Assign) and isinstance(st.targets[0], ast.Name):
                nm = st.targets[0].id
                body = pm[st].body if hasattr(pm[st], "body") else []
                if st in body:
                    for nxt in body[body.index(st) + 1: body.index(st) + 3]:
                        if nm in names_in(nxt) and "transpose((1, 0, 2))" in norm(nxt):
                            transposed = True
            out.append({"lo": lo, "hi": hi, "transposed": transposed, "stmt": st})
    return out


def _numeric_field_pos(call_or_js: ast.AST) -> Optional[Tuple[int, int]]:
    """(index of first numeric (.real) field, number of numeric fields) of a line format."""
    if isinstance(call_or_js, ast.JoinedStr):
        fvs = [v for v in call_or_js.values if isinstance(v, ast.FormattedValue)]
        for i, v in enumerate(fvs):
            if norm(v.value).endswith(".real"):
                return i, len(fvs) - i
        return len(fvs), 0
    if isinstance(call_or_js, ast.Call) and isinstance(call_or_js.func, ast.Attribute) and call_or_js.func.attr == "format" \
            and isinstance(call_or_js.func.value, ast.Constant):
        nph = len(re.findall(r"\{[^}]*\}", call_or_js.func.value.value))
        tail = [a for a in call_or_js.args if not isinstance(a, ast.Starred)]
        numeric = [a for a in tail if norm(a).endswith((".real", ".imag"))]
        return nph - len(numeric), len(numeric)
    return None


def run(ctx) -> None:
    idx = ctx.index

    # ---------------------------------------------------------------- R18.1
    r1 = ctx.rule("R18.1", "Wannier-centre WT file: reader inverts writer for every number of centres", min_instances=3)
    rd = idx.function(HR, "read_WCC_WT_format")
    rcfg, rdu, rpm = fctx(rd)
    writers = [idx.function(HR, "write_WCC_WT_format"), idx.function(HR, "write_hr_file")]
    wslices = None
    for w in writers:
        loops = _wt_writer_slices(w)
        if len(loops) != 2:
            if w.name == "write_hr_file" and not loops:
                continue
            raise AnalysisError(f"{w.short}: expected two `for row in data[slice]` write loops, found {len(loops)}")
        r1.instance(f"{w.short}: rows {norm1(loops[0].iter)} then {norm1(loops[1].iter)}")
        sl = [l.iter.slice for l in loops]
        # writer must emit every row exactly once
        for n in range(0, 10):
            a = _slice_indices(sl[0], n, ())
            b = _slice_indices(sl[1], n, ())
            if sorted(a + b) != list(range(n)):
                r1.violation(w, loops[0], f"for n={n} centres the writer emits rows {a}+{b}: not every centre exactly once")
                break
        else:
            r1.ok(f"{w.short}: the two loops emit every centre exactly once (n=0..9)")
        if wslices is None:
            wslices = sl
        elif [norm(x) for x in wslices] != [norm(x) for x in sl]:
            r1.violation(w, loops[0], "write_hr_file's inline copy de-interleaves differently from write_WCC_WT_format")
    # reader
    asg = [s for s in stmts(rd.node) if isinstance(s, ast.Assign) and isinstance(s.targets[0], ast.Subscript)
           and isinstance(s.targets[0].slice, ast.Slice) and isinstance(s.value, ast.Subscript)
           and isinstance(s.value.slice, ast.Slice)]
    if len(asg) != 2:
        raise AnalysisError(f"{rd.short}: expected two slice assignments out[S] = data[T], found {len(asg)}")
    r1.instance(f"{rd.short}: {norm1(asg[0])}; {norm1(asg[1])}")
    src_names = {norm(s.value.value) for s in asg}
    bad = None
    for n in range(0, 10):
        file_rows = _slice_indices(wslices[0], n, ()) + _slice_indices(wslices[1], n, ())  # file line k holds centre file_rows[k]
        recon: Dict[int, int] = {}
        for s in asg:
            tgt = _slice_indices(s.targets[0].slice, n, src_names, rdu, rcfg.node(s))
            src = _slice_indices(s.value.slice, n, src_names, rdu, rcfg.node(s))
            if len(tgt) != len(src):
                bad = (n, s, f"`{norm1(s)}` assigns {len(src)} rows to {len(tgt)} slots")
                break
            for t, k in zip(tgt, src):
                recon[t] = file_rows[k] if k < len(file_rows) else -1
        if bad:
            break
        if any(recon.get(i) != i for i in range(n)):
            bad = (n, asg[0], f"the reader places file rows so that centres come back as {[recon.get(i) for i in range(n)]}")
            break
    if bad:
        r1.violation(rd, bad[1], f"for n={bad[0]} Wannier functions {bad[2]}: the centre file written by write_hr_file cannot "
                     f"be read back (ValueError) or comes back permuted")
    else:
        r1.ok("reader's split/interleave inverts the writer's de-interleave for n = 0..9 (both parities)")

    # ---------------------------------------------------------------- R18.2 / R18.3
    r2 = ctx.rule("R18.2", "matrix element order: writer nest/index ↔ reader nest/transpose", min_instances=3)
    r3 = ctx.rule("R18.3", "numeric columns: writer format ↔ reader split slice", min_instances=3)
    wtb = idx.function(TB, "write_tb_file")
    rtb = idx.function(TB, "get_system_tb")
    whr = idx.function(HR, "write_hr_file")
    rhr = idx.function(HR, "get_system_hr")
    for w, r, label, nblocks in ((wtb, rtb, "_tb.dat", 2), (whr, rhr, "_hr.dat", 1)):
        wpm = fctx(w)[2]
        elems = _elem_and_order(w.node, wpm)
        # one representative per written array
        by_arr: Dict[str, tuple] = {}
        for a, b, order, n in elems:
            by_arr.setdefault(n.value.id, (a, b, order, n))
        blocks = _reader_blocks(r)
        if len(by_arr) != nblocks or len(blocks) < nblocks:
            raise AnalysisError(f"{label}: expected {nblocks} written array(s) / read block(s), found {len(by_arr)} / {len(blocks)}")
        blocks.sort(key=lambda b_: b_["stmt"].lineno)
        warr = sorted(by_arr.items(), key=lambda kv: kv[1][3].lineno)
        pairs = [(warr[0], blocks[0])] + [(warr[-1], b_) for b_ in blocks[1:] if len(warr) > 1]
        for (arr, (a, b, order, n)), blk in pairs:
            r2.instance(f"{label}: {w.qualname} writes {arr}[{a}, {b}] in order {order}; {r.qualname} reads {norm1(blk['stmt'], 60)}")
            swapped = (order == [b, a])  # outer loop runs over the second index
            r2.check(swapped == blk["transposed"],
                     f"{label}/{arr}: writer {'inner-first' if swapped else 'outer-first'} index ↔ reader "
                     f"{'with' if blk['transposed'] else 'without'} transpose", w, wpm_stmt(wpm, n),
                     f"{label}: {arr}[{a}, {b}] is written with `{order[0]}` as the outer loop, and the reader "
                     f"{'transposes' if blk['transposed'] else 'does not transpose'} the block it reads: the matrix comes "
                     f"back transposed (H(R) → H(R)^T)")
            # columns
            st = wpm_stmt(wpm, n)
            fmt = None
            for x in ast.walk(st):
                if isinstance(x, ast.JoinedStr) and any(x2 is n for x2 in ast.walk(x)):
                    fmt = x
                    break
                if isinstance(x, ast.Call) and isinstance(x.func, ast.Attribute) and x.func.attr == "format" \
                        and any(x2 is n for x2 in ast.walk(x)):
                    fmt = x
                    break
            if fmt is None:
                # "<prefix f-string>" + " ".join(f"{a.real} {a.imag}" for a in X[m, n]) + "\n"
                x = n
                while x in wpm and not isinstance(wpm[x], (ast.GeneratorExp, ast.ListComp)) or \
                        (x in wpm and isinstance(wpm[x], ast.GeneratorExp) and any(x2 is n for g in wpm[x].generators for x2 in ast.walk(g.iter))):
                    x = wpm[x]
                    if isinstance(x, ast.BinOp) and isinstance(x.op, ast.Add):
                        left = x
                        while isinstance(left, ast.BinOp):
                            left = left.left
                        if isinstance(left, ast.JoinedStr):
                            fmt = left
                    if isinstance(x, ast.stmt):
                        break
            pos = _numeric_field_pos(fmt) if fmt is not None else None
            r3.instance(f"{label}/{arr}")
            if pos is None:
                raise AnalysisError(f"{label}: cannot locate the line format of {arr}")
            first, count = pos
            if count == 0:
                # vector block: "m n " + " ".join(f"{a.real} {a.imag}" for a in X[m, n]) → 3 components × (re, im)
                inner = [x for x in ast.walk(st) if isinstance(x, ast.JoinedStr) and ".real" in norm(x) and x is not fmt]
                count = 6 if inner and norm(inner[0]).index(".real") < norm(inner[0]).index(".imag") else -1
            r3.check(blk["lo"] == first and blk["hi"] - blk["lo"] == count,
                     f"{label}/{arr}: numeric fields at [{first}:{first + count}] = reader slice [{blk['lo']}:{blk['hi']}]",
                     r, blk["stmt"], f"{label}: the writer puts the numeric fields of {arr} at columns [{first}:{first + count}] "
                     f"but the reader takes split()[{blk['lo']}:{blk['hi']}]")
    # normalisation: reader divides by Ndegen, writer multiplies by Ndegen (=1)
    for w, label in ((wtb, "_tb.dat"), (whr, "_hr.dat")):
        t = norm(w.node)
        r2.check("Ndegen = np.ones(" in t, f"{label}: degeneracy weights written as ones (reader divides by them)", w, w.node,
                 f"{label}: the writer's Ndegen is not all ones while the matrices are stored already weighted",
                 stmt="Ndegen")

    # ---------------------------------------------------------------- R18.4
    r4 = ctx.rule("R18.4", "npz directory: written ⊇ essential; loaded before use; names agree", min_instances=4)
    to_npz = idx.function(SR, "System_R.to_npz")
    load = idx.function(SR, "System_R.load_npz")
    ess = idx.function(SR, "System_R.essential_properties")
    lst = [s.value for s in stmts(ess.node) if isinstance(s, ast.Return)]
    if not lst or not isinstance(lst[0], ast.List):
        raise AnalysisError("System_R.essential_properties is not a literal list")
    essential = [e.value for e in lst[0].elts]
    r4.instance(f"{ess.short}: {essential}")
    tw, tl = norm(to_npz.node), norm(load.node)
    r4.check("self.essential_properties" in tw and "for key in properties" in tw and "key + '.npz'" in tw,
             "to_npz writes one <key>.npz per essential property", to_npz, to_npz.node,
             "to_npz no longer writes every essential property to <key>.npz", stmt="to_npz properties loop")
    special_w = {"iRvec": "self.rvec.iRvec", "pointgroup": "val.as_dict()", "cell": "**val"}
    for k, frag in special_w.items():
        if k in essential or k == "cell":
            r4.check(frag in tw, f"to_npz special case {k}", to_npz, to_npz.node, f"to_npz lost the special case for `{k}`",
                     stmt=f"to_npz {k}")
    for need in ("real_lattice", "wannier_centers_cart", "iRvec"):
        r4.check(need in essential, f"`{need}` is essential (needed to rebuild the R-vectors)", ess, lst[0],
                 f"`{need}` is no longer saved by default: load_npz cannot rebuild the system", stmt=f"essential {need}")
    # load order: lattice and centres first
    m = re.search(r"properties = \[([^\]]*)\] \+ properties", tl)
    first = [x.strip().strip("'\"") for x in m.group(1).split(",")] if m else []
    r4.instance(f"{load.short}: loads {first} first")
    r4.check(first[:2] == ["real_lattice", "wannier_centers_cart"] or set(first) >= {"real_lattice", "wannier_centers_cart"},
             "real_lattice and wannier_centers_cart are loaded before iRvec", load, load.node,
             f"load_npz processes the files in directory order (first: {first}); building Rvectors from iRvec needs the "
             f"lattice and the centres, which may not be loaded yet", stmt="load order")
    r4.check("Rvectors(lattice=self.real_lattice, iRvec=val, shifts_left_red=self.wannier_centers_red)" in tl,
             "iRvec → Rvectors with the loaded lattice and centre shifts", load, load.node,
             "load_npz no longer rebuilds Rvectors from iRvec with the centre shifts", stmt="iRvec → Rvectors")
    r4.check("PointGroup(dictionary=a)" in tl and "setattr(self, key_loc, val)" in tl, "pointgroup/symgroup and plain arrays restored",
             load, load.node, "load_npz no longer restores the point group / generic properties", stmt="setattr")
    r4.check("self._R_mat_npz_filename(key)" in tw and "self._R_mat_npz_filename(key)" in tl,
             "R-matrix file names go through _R_mat_npz_filename on both sides", load, load.node,
             "to_npz and load_npz build R-matrix file names differently", stmt="_R_mat_npz_filename")
    fn = idx.function(SR, "System_R._R_mat_npz_filename")
    prefix = [c.value for c in ast.walk(fn.node) if isinstance(c, ast.Constant) and isinstance(c.value, str) and c.value.startswith("_XX")]
    r4.check(bool(prefix) and f"'{prefix[0]}*.npz'" in tl and f"[{len(prefix[0])}:]" in tl and f"startswith('{prefix[0]}')" in tl,
             f"load_npz recognises R-matrix files by the writer's prefix {prefix}", load, load.node,
             f"load_npz's glob/prefix-strip does not match the writer's prefix {prefix}", stmt="prefix")
    check_pointgroup_serialisation(ctx)
    lcfg, ldu, lpm = fctx(load)
    ot = OrderTaint(load.node, ldu)
    for s in ot.sources:
        r4.instance(f"{load.short}: {norm1(s, 60)}")
    sk = ot.sinks()
    r4.check(not sk, "directory listings in load_npz are used order-insensitively", load,
             enclosing(lpm, sk[0][0], ast.stmt) if sk else load.node,
             f"load_npz takes `{norm1(sk[0][0], 60)}` positionally from a directory listing" if sk else "")


def check_pointgroup_serialisation(ctx) -> None:
    """R18.5 — PointGroup.as_dict ↔ PointGroup(dictionary=…) and PointSymmetry.as_dict ↔ PointSymmetry(**d)."""
    idx = ctx.index
    PS = "wannierberri/symmetry/point_symmetry.py"
    r5 = ctx.rule("R18.5", "point-group serialisation: every key is written from the attribute the reader restores it to", min_instances=2)
    pg = idx.cls(PS, "PointGroup")
    ps = idx.cls(PS, "PointSymmetry")
    wd = pg.methods.get("as_dict")
    ini = pg.methods.get("__init__")
    if wd is None or ini is None:
        raise AnalysisError("PointGroup.as_dict/__init__ vanished")
    r5.instance(wd.short)
    dcalls = [c for c in ast.walk(wd.node) if isinstance(c, ast.Call) and call_name(c) == "dict"]
    if len(dcalls) != 1:
        raise AnalysisError("PointGroup.as_dict: dict(...) literal not found")
    written = {k.arg: k.value for k in dcalls[0].keywords}
    # reader: dictionary['key'] → constructor keyword
    reads = {}
    for c in ast.walk(ini.node):
        if isinstance(c, ast.Call) and norm(c.func) == "self.__init__":
            for k in c.keywords:
                if isinstance(k.value, ast.Subscript) and norm(k.value.value) == "dictionary" and isinstance(k.value.slice, ast.Constant):
                    reads[k.value.slice.value] = k.arg
    ti = norm(ini.node)
    r5.check("nsym = dictionary['nsym']" in ti and "nsym" in written and norm(written["nsym"]) in ("nsym", "len(self.symmetries)"),
             "number of operations written and read under 'nsym'", wd, dcalls[0], "`nsym` is not written/read consistently", stmt="nsym")
    for key, param in reads.items():
        v = written.get(key)
        r5.check(v is not None and norm(v) == f"self.{param}", f"key {key!r} ← self.{param} → constructor parameter {param}", wd,
                 dcalls[0] if v is None else v,
                 f"PointGroup.as_dict stores `{norm1(v) if v is not None else None}` under the key {key!r}, which the loader passes as "
                 f"`{param}=`: a reloaded point group gets a different {param} (operations are then applied in the wrong basis)",
                 stmt=f"{key}={norm1(v) if v is not None else None}")
    if not reads:
        raise AnalysisError("PointGroup.__init__: dictionary branch does not pass dictionary[...] to the constructor")
    r5.check("self._symm_dict_prefix(i) + k" in norm(wd.node) and "l = self._symm_dict_prefix(i)" in ti and "k[len(l):]" in ti,
             "per-operation keys use one prefix helper on both sides", wd, wd.node, "per-operation key prefix differs between writer and reader",
             stmt="symm prefix")
    sw = ps.methods.get("as_dict")
    si = ps.methods.get("__init__")
    r5.instance(sw.short)
    sd = [c for c in ast.walk(sw.node) if isinstance(c, ast.Call) and call_name(c) == "dict"]
    keys = {k.arg: norm(k.value) for k in sd[0].keywords} if sd else {}
    r5.check(set(keys) <= set(si.params[1:]) and set(keys) == {"R", "TR"}, f"operation keys {sorted(keys)} are constructor parameters", sw,
             sd[0] if sd else sw.node, f"PointSymmetry.as_dict writes {sorted(keys)} but PointSymmetry(**d) accepts {si.params[1:]}",
             stmt=f"keys {sorted(keys)}")
    tsi = norm(si.node)
    r5.check(keys.get("R") == "self.R * (-1 if self.Inv else 1)" and "self.R = R * (-1 if self.Inv else 1)" in tsi
             and "self.Inv = np.linalg.det(R) < 0" in tsi and keys.get("TR") == "self.TR",
             "the improper sign folded into R on write is split off again on read", sw, sd[0] if sd else sw.node,
             f"PointSymmetry.as_dict writes R as `{keys.get('R')}` / TR as `{keys.get('TR')}`: the inversion part of an operation is not "
             f"restored by PointSymmetry.__init__", stmt=f"R={keys.get('R')}")


def wpm_stmt(pm, n):
    return enclosing(pm, n, ast.stmt)


from ..selftest import V  # noqa: E402

SELFTEST = [
    V("reader splits at n//2 (original defect: odd n)", HR,
      "    nup = (data.shape[0] + 1) // 2\n    data_2[::2] = data[:nup]\n    data_2[1::2] = data[nup:]\n",
      "    data_2[::2] = data[:data.shape[0] // 2]\n    data_2[1::2] = data[data.shape[0] // 2:]\n", "fire", "R18.1"),
    V("reader interleaves the halves the other way round", HR,
      "    data_2[::2] = data[:nup]\n    data_2[1::2] = data[nup:]\n", "    data_2[1::2] = data[:nup]\n    data_2[::2] = data[nup:]\n",
      "fire", "R18.1"),
    V("writer drops the last centre of the second half", HR,
      "def write_WCC_WT_format(seedname, wannier_centers_cart):\n    r = open(seedname + \"_wannier_centre_WT_format.dat\", \"w\")\n    data = wannier_centers_cart\n    for i in data[::2]:",
      "def write_WCC_WT_format(seedname, wannier_centers_cart):\n    r = open(seedname + \"_wannier_centre_WT_format.dat\", \"w\")\n    data = wannier_centers_cart\n    for i in data[:-1:2]:",
      "fire", "R18.1"),
    V("tb writer loops swapped (m outer)", TB,
      "                f\"{m + 1:3d} {n + 1:3d} {_ham[m, n].real:15.8e} {_ham[m, n].imag:15.8e}\\n\"\n                for n in system.range_wann for m in system.range_wann)",
      "                f\"{m + 1:3d} {n + 1:3d} {_ham[m, n].real:15.8e} {_ham[m, n].imag:15.8e}\\n\"\n                for m in system.range_wann for n in system.range_wann)",
      "fire", "R18.2"),
    V("tb reader forgets the transpose of H", TB,
      "            dtype=float).transpose((1, 0, 2))\n        Ham_R[ir] = (hh[:, :, 0] + 1j * hh[:, :, 1]) / Ndegen[ir]\n    system.set_R_mat('Ham', Ham_R)\n    iRvec = np.array(iRvec, dtype=int)\n    iR0",
      "            dtype=float)\n        Ham_R[ir] = (hh[:, :, 0] + 1j * hh[:, :, 1]) / Ndegen[ir]\n    system.set_R_mat('Ham', Ham_R)\n    iRvec = np.array(iRvec, dtype=int)\n    iR0",
      "fire", "R18.2"),
    V("hr writer writes the transposed element", HR, "m + 1, n + 1, _ham[m, n].real, _ham[m, n].imag)",
      "m + 1, n + 1, _ham[n, m].real, _ham[n, m].imag)", "fire", "R18.2"),
    V("hr reader takes the wrong columns", HR, "f.readline().split()[5:7]", "f.readline().split()[4:6]", "fire", "R18.3"),
    V("AA reader takes too few columns", TB,
      "                [[f.readline().split()[2:8] for _ in range(system.num_wann)] for _ in range(system.num_wann)],\n                dtype=float)\n            AA_R[ir]",
      "                [[f.readline().split()[2:6] for _ in range(system.num_wann)] for _ in range(system.num_wann)],\n                dtype=float)\n            AA_R[ir]",
      "fire", "R18.3"),
    V("centres no longer loaded first", SR, "properties = [\"real_lattice\", \"wannier_centers_cart\"] + properties",
      "properties = [\"real_lattice\"] + properties", "fire", "R18.4"),
    V("R-matrix prefix changed on the writer side only", SR, "            return \"_XX_R_\" + key + \".npz\"", "            return \"_XX_R-\" + key + \".npz\"",
      "fire", "R18.4"),
    V("iRvec dropped from the essential list", SR, "['num_wann', 'real_lattice', 'iRvec', 'periodic',", "['num_wann', 'real_lattice', 'periodic',",
      "fire", "R18.4"),
    V("point group saved with the reciprocal lattice (seeded C18-m2)", "wannierberri/symmetry/point_symmetry.py",
      "ret = dict(real_lattice=self.real_lattice,", "ret = dict(real_lattice=self.recip_lattice,", "fire", "R18.5"),
    V("inversion sign not folded into the saved rotation", "wannierberri/symmetry/point_symmetry.py",
      "return dict(R=self.R * (-1 if self.Inv else 1), TR=self.TR)", "return dict(R=self.R, TR=self.TR)", "fire", "R18.5"),
    V("neutral: reader split via len()", HR, "nup = (data.shape[0] + 1) // 2", "nup = (len(data) + 1) // 2", "silent"),
    V("neutral: reader split spelled n - n//2", HR, "nup = (data.shape[0] + 1) // 2", "nup = data.shape[0] - data.shape[0] // 2", "silent"),
]
