"""C05 — invariance under relabelling the Wannier basis (structural clause: per-Wannier-function state coverage).

R05.1 every mutator of System_R that permutes/doubles Wannier functions rewrites ALL per-WF state with the SAME index:
      centres (axis 0), every real-space matrix (axes 1 and 2), the R-vector shifts (left and right), optional names;
      cached derived state is invalidated after the last write on all paths.
R05.2 Rvectors.reorder permutes both shift arrays when called with one order (path-sensitive None analysis) and clears
      its caches; Rvectors.double_spin doubles both.
R05.3 the shift-dependent factors are derived from the shifts (cRvec_shifted depends on shifts_left/right) and are in the
      cache-clear list.
"""
from __future__ import annotations

import ast
from typing import Dict, List, Optional, Set, Tuple

from ..index import AnalysisError, call_name, norm, norm1
from ..sem import Sem, helper_calls
from .common import calls, enclosing, fctx, in_body, is_name, kwarg, method_calls, stmts, store_targets

LEVEL = "other"
EXPLANATION = (
    "The per-Wannier-function state of a System_R is the frozen set {wannier_centers_cart (axis 0), every _XX_R[key] "
    "(axes 1 and 2), rvec.shifts_left_red / shifts_right_red, wannier_names}. For each mutator (reorder, "
    "spin_block2interlace, double_spin) the rule checks that every element is rewritten, that both matrix axes are indexed "
    "with the same index expression that also re-indexes the centres and is handed to rvec.reorder, and (CFG must-pass) "
    "that clear_cached_wcc() follows the centre write on every path. Rvectors.reorder is abstractly executed for the call "
    "shape reorder(order) with a three-valued None domain over its two parameters: on every path both shift arrays must "
    "end up permuted by that order. Decides that relabelling cannot leave one piece of per-WF state in the old order; does "
    "not decide numerical invariance, nor unitary rotations among co-centred functions.")

SR = "wannierberri/system/system_R.py"
RV = "wannierberri/fourier/rvectors.py"


def _matrix_reindex(f) -> List[Tuple[ast.stmt, List[str]]]:
    """Statements `self._XX_R[key] = val[:, :, I][:, I, :]` → (stmt, [index on axis 2, index on axis 1])."""
    out = []
    for s in stmts(f.node):
        if isinstance(s, ast.Assign) and isinstance(s.targets[0], ast.Subscript) and norm(s.targets[0].value) == "self._XX_R":
            idxs = []
            e = s.value
            while isinstance(e, ast.Subscript):
                sl = e.slice
                elts = sl.elts if isinstance(sl, ast.Tuple) else [sl]
                pos = [(i, norm(x)) for i, x in enumerate(elts) if norm(x) != ":"]
                idxs += pos
                e = e.value
            out.append((s, idxs))
    return out


def _paths(body: List[ast.stmt], env: Dict[str, object]):
    """Enumerate paths through straight-line code with ifs; conditions on `<param> is [not] None` are decided from env
    (values: 'X' = some order, None, or a name alias), others fork. Yields final env per path."""
    if not body:
        yield env
        return
    s, rest = body[0], body[1:]
    if isinstance(s, ast.If):
        dec = _decide(s.test, env)
        branches = []
        if dec in (True, None):
            branches.append(s.body)
        if dec in (False, None):
            branches.append(s.orelse)
        for b in branches:
            for e1 in _paths(list(b), dict(env)):
                yield from _paths(rest, e1)
        return
    if isinstance(s, ast.Assign) and len(s.targets) == 1:
        t = s.targets[0]
        e = dict(env)
        if isinstance(t, ast.Name):
            e[t.id] = _value(s.value, env)
        elif isinstance(t, ast.Attribute) and norm(t.value) == "self":
            e["self." + t.attr] = _value(s.value, env)
        yield from _paths(rest, e)
        return
    if isinstance(s, ast.Expr) and isinstance(s.value, ast.Call) and norm(s.value.func) == "self.clear_cached":
        e = dict(env)
        e["__cleared__"] = True
        yield from _paths(rest, e)
        return
    yield from _paths(rest, env)


def _value(v: ast.AST, env):
    if isinstance(v, ast.Name):
        return env.get(v.id, "?" + v.id)
    if isinstance(v, ast.Constant) and v.value is None:
        return None
    if isinstance(v, ast.Subscript) and isinstance(v.value, ast.Attribute) and norm(v.value.value) == "self":
        base = env.get("self." + v.value.attr, ("orig", v.value.attr))
        ix = _value(v.slice, env) if isinstance(v.slice, ast.Name) else "?" + norm(v.slice)
        return ("indexed", base, ix)
    if isinstance(v, ast.Attribute) and norm(v.value) == "self":
        return env.get("self." + v.attr, ("orig", v.attr))
    if isinstance(v, ast.Call):
        return "?" + norm1(v, 40)
    return "?" + norm1(v, 40)


def _decide(t: ast.AST, env) -> Optional[bool]:
    if isinstance(t, ast.BoolOp):
        vals = [_decide(v, env) for v in t.values]
        if isinstance(t.op, ast.And):
            if any(v is False for v in vals):
                return False
            return True if all(v is True for v in vals) else None
        if any(v is True for v in vals):
            return True
        return False if all(v is False for v in vals) else None
    if isinstance(t, ast.Compare) and len(t.ops) == 1 and isinstance(t.left, ast.Name) and t.left.id in env \
            and isinstance(t.comparators[0], ast.Constant) and t.comparators[0].value is None:
        isnone = env[t.left.id] is None
        if isinstance(t.ops[0], ast.Is):
            return isnone
        if isinstance(t.ops[0], ast.IsNot):
            return not isnone
    return None


def run(ctx) -> None:
    idx = ctx.index

    # ---------------------------------------------------------------- R05.1
    r1 = ctx.rule("R05.1", "System_R mutators rewrite all per-WF state with one index and invalidate caches", min_instances=3)
    for q in ("System_R.reorder", "System_R.spin_block2interlace"):
        f = idx.function(SR, q)
        cfg, du, pm = fctx(f)
        r1.instance(f.short)
        cst = [s for s in stmts(f.node) if isinstance(s, ast.Assign) and norm(s.targets[0]) == "self.wannier_centers_cart"]
        if len(cst) != 1 or not isinstance(cst[0].value, ast.Subscript) or norm(cst[0].value.value) != "self.wannier_centers_cart":
            r1.violation(f, f.node, f"{q} does not permute wannier_centers_cart", stmt="centres")
            continue
        I = norm(cst[0].value.slice)
        S = Sem(idx, f)
        mats = []    # (function, stmt, [(axis, index text)], loop iter text)
        for g, S_g in [(f, S)] + [(g_, s_) for g_, _, s_ in helper_calls(idx, S)]:
            for st_ in stmts(g.node):
                if isinstance(st_, ast.Assign) and isinstance(st_.targets[0], ast.Subscript) and norm(st_.targets[0].value) == "self._XX_R":
                    keyv = norm(st_.targets[0].slice)
                    e_ = S_g.resolve(st_.value, S_g.cfg.node(st_))
                    idxs = []
                    while isinstance(e_, ast.Subscript):
                        sl = e_.slice
                        elts = sl.elts if isinstance(sl, ast.Tuple) else [sl]
                        if not isinstance(sl, ast.Tuple) and norm(sl) == keyv:
                            break
                        idxs += [(i_, norm(x)) for i_, x in enumerate(elts) if norm(x) != ":"]
                        e_ = e_.value
                    base_ok = norm(e_) in (f"self._XX_R[{keyv}]",)
                    lp_ = enclosing(S_g.pm, st_, ast.For)
                    allkeys = lp_ is not None and ((norm(lp_.iter) == "self._XX_R.items()" and isinstance(lp_.target, ast.Tuple) and norm(lp_.target.elts[0]) == keyv)
                                                   or (norm(lp_.iter) in ("self._XX_R", "self._XX_R.keys()", "list(self._XX_R)", "list(self._XX_R.keys())") and norm(lp_.target) == keyv))
                    mats.append((g, st_, idxs, base_ok and allkeys))
        okm = len(mats) == 1 and sorted(mats[0][2]) == [(1, I), (2, I)] and mats[0][3]
        r1.check(okm, f"every _XX_R[key] is re-indexed with `{I}` on both Wannier axes", mats[0][0] if mats else f, mats[0][1] if mats else f.node,
                 f"{q}: the real-space matrices are re-indexed with {mats[0][2] if mats else None} while the centres use `{I}`"
                 f"{'' if (mats and mats[0][3]) else ' (or not for every key of self._XX_R)'}: rows, columns and centres end up in different orders")
        rc = [c for c in method_calls(f.node, "reorder") if norm(c.func.value) == "self.rvec"]
        okr = False
        if len(rc) == 1:
            a0 = kwarg(rc[0], "order_left", 0)
            a1 = kwarg(rc[0], "order_right", 1)
            okr = a0 is not None and norm(a0) == I and (a1 is None or norm(a1) == I)
        r1.check(okr, f"rvec.reorder({I}) permutes the centre shifts with the same index", f, rc[0] if rc else f.node,
                 f"{q}: the R-vector shifts are re-ordered with `{norm1(rc[0]) if rc else 'nothing'}` but centres/matrices with `{I}`: "
                 f"derivatives use R + τj − τi of the wrong functions")
        clears = [cfg.node(enclosing(pm, c, ast.stmt)) for c in method_calls(f.node, "clear_cached_wcc") if norm(c.func.value) == "self"]
        snode = cfg.node(cst[0])
        r1.check(bool(clears) and cfg.must_pass(snode, clears), "clear_cached_wcc() follows the centre write on every path", f, cst[0],
                 f"{q} rewrites wannier_centers_cart but does not call clear_cached_wcc() afterwards on every path: the cached "
                 f"`wannier_centers_red` keeps the old order and later consumers (do_ws_dist, get_sparse, symmetrize) mix orders",
                 path=cfg.describe_path(cfg.path_avoiding(snode, cfg.exit, clears) or []))
        if q.endswith(".reorder"):
            wn = [s for s in stmts(f.node) if isinstance(s, ast.Assign) and norm(s.targets[0]) == "self.wannier_names"]
            r1.check(len(wn) == 1 and norm(wn[0].value) == f"self.wannier_names[{I}]", "optional wannier_names follow the same order", f,
                     wn[0] if wn else f.node, f"{q}: wannier_names are not permuted with `{I}`")
    ds = idx.function(SR, "System_R.double_spin")
    r1.instance(ds.short)
    cfg, du, pm = fctx(ds)
    from .c25 import double_spin_rule
    double_spin_rule(ctx, r1)
    cst = [s for s in stmts(ds.node) if isinstance(s, ast.Assign) and "self.wannier_centers_cart" in norm(s.targets[0])]
    clears = [cfg.node(enclosing(pm, c, ast.stmt)) for c in method_calls(ds.node, "clear_cached_wcc")]
    r1.check(bool(clears) and all(cfg.must_pass(cfg.node(s), clears) for s in cst), "double_spin: caches cleared after the centre writes", ds,
             cst[-1] if cst else ds.node, "double_spin does not clear the cached centres after rewriting them")

    # ---------------------------------------------------------------- R05.2
    r2 = ctx.rule("R05.2", "Rvectors.reorder / double_spin act on both shift arrays", min_instances=2)
    ro = idx.function(RV, "Rvectors.reorder")
    r2.instance(ro.short)
    a = ro.node.args.args
    if [x.arg for x in a] != ["self", "order_left", "order_right"]:
        raise AnalysisError("Rvectors.reorder signature changed")
    npaths = 0
    bad = None
    for has_right in ("separate", "aliased"):
        env0 = {"order_left": "X", "order_right": None}
        for env in _paths(list(ro.node.body), env0):
            npaths += 1
            left = env.get("self.shifts_left_red")
            right = env.get("self.shifts_right_red")
            okl = left == ("indexed", ("orig", "shifts_left_red"), "X")
            okr = right == ("indexed", ("orig", "shifts_right_red"), "X") or (right == left and okl)
            if not (okl and okr and env.get("__cleared__")):
                bad = (left, right, env.get("__cleared__"))
    r2.check(bad is None and npaths > 0, f"reorder(order): on all {npaths} paths both shift arrays are permuted by `order` and caches cleared",
             ro, ro.node, f"Rvectors.reorder(order) has a path where the shifts end as left={bad[0] if bad else None}, "
             f"right={bad[1] if bad else None}, caches cleared={bad[2] if bad else None}: only one side of R + τj − τi follows the new "
             f"order of the Wannier functions", stmt="reorder(order) paths")
    r2.instance("Rvectors.double_spin (decided with System_R.double_spin under R05.1)")

    # ---------------------------------------------------------------- R05.3
    r3 = ctx.rule("R05.3", "shift-dependent cached quantities are invalidated by clear_cached")
    cc = idx.function(RV, "Rvectors.clear_cached")
    r3.instance(cc.short)
    names = [c.value for c in ast.walk(cc.node) if isinstance(c, ast.Constant) and isinstance(c.value, str)]
    rvc = idx.cls(RV, "Rvectors")
    # cached properties on the dependency chain of the derivative factors R + τj − τi (anchor: cRvec_shifted)
    cached = {m.name: m for m in rvc.methods.values() if any(d.endswith("cached_property") for d in m.decorators)}
    if "cRvec_shifted" not in cached:
        raise AnalysisError("Rvectors.cRvec_shifted is no longer a cached property")
    dependent, work = [], ["cRvec_shifted"]
    while work:
        nme = work.pop()
        if nme in dependent:
            continue
        dependent.append(nme)
        for x in ast.walk(cached[nme].node):
            if isinstance(x, ast.Attribute) and isinstance(x.value, ast.Name) and x.value.id == "self" and x.attr in cached:
                work.append(x.attr)
    tcs = norm(cached["cRvec_shifted"].node)
    r3.check("self.shifts_diff_cart" in tcs and "self.cRvec" in tcs, "cRvec_shifted = cRvec + (τj − τi)", cached["cRvec_shifted"],
             cached["cRvec_shifted"].node, "cRvec_shifted is no longer built from cRvec and the shift differences", stmt="cRvec_shifted")
    missing = [d for d in dependent if d not in names]
    r3.check(not missing and bool(dependent), f"all {len(dependent)} cached properties behind cRvec_shifted {sorted(dependent)} are in the clear list", cc, cc.node,
             f"cached properties {missing} depend on the shifts but are not cleared by Rvectors.clear_cached: after a reorder they keep "
             f"the old order", stmt=f"missing {missing}")
    sc = idx.function(SR, "System_R.clear_cached_wcc")
    tt = norm(sc.node).replace(" ", "")
    r3.check("clear_cached(self,['wannier_centers_red'])" in tt and "self.rvec.clear_cached()" in tt, "clear_cached_wcc clears the reduced centres and the rvec caches",
             sc, sc.node, "System_R.clear_cached_wcc no longer clears wannier_centers_red / rvec caches", stmt="clear_cached_wcc")


from ..selftest import V  # noqa: E402

SELFTEST = [
    V("reorder: cache invalidation dropped (seeded C05-m1)", SR,
      "            self.wannier_names = self.wannier_names[new_wann_indices]\n        self.clear_cached_wcc()\n        self.clear_cached_R()\n",
      "            self.wannier_names = self.wannier_names[new_wann_indices]\n", "fire", "R05.1"),
    V("reorder: columns permuted, rows not", SR, "self._XX_R[key] = val[:, :, new_wann_indices][:, new_wann_indices, :]",
      "self._XX_R[key] = val[:, :, new_wann_indices]", "fire", "R05.1"),
    V("reorder: shifts not permuted", SR, "        self.rvec.reorder(new_wann_indices)\n        if hasattr(self, 'wannier_names'):",
      "        if hasattr(self, 'wannier_names'):", "fire", "R05.1"),
    V("spin_block2interlace: centres permuted with the inverse map", SR,
      "        self.wannier_centers_cart = self.wannier_centers_cart[mapping]\n        self.rvec.reorder(mapping)",
      "        self.wannier_centers_cart = self.wannier_centers_cart[np.argsort(mapping)]\n        self.rvec.reorder(mapping)", "fire", "R05.1"),
    V("Rvectors.reorder: None keeps the side (seeded C05-m2)", RV,
      "        if order_right is None:\n            order_right = order_left\n        if order_left is None:\n            order_left = order_right\n        self.shifts_left_red = self.shifts_left_red[order_left]\n        self.shifts_right_red = self.shifts_right_red[order_right]\n",
      "        if order_left is not None:\n            self.shifts_left_red = self.shifts_left_red[order_left]\n        if self.has_shifts_right:\n            if order_right is not None:\n                self.shifts_right_red = self.shifts_right_red[order_right]\n        else:\n            self.shifts_right_red = self.shifts_left_red\n",
      "fire", "R05.2"),
    V("Rvectors.reorder forgets to clear caches", RV,
      "        self.shifts_right_red = self.shifts_right_red[order_right]\n        self.clear_cached()\n",
      "        self.shifts_right_red = self.shifts_right_red[order_right]\n", "fire", "R05.2"),
    V("cRvec_shifted removed from the clear list", RV, "'shifts_left_cart', 'shifts_right_cart', 'cRvec_shifted'])", "'shifts_left_cart', 'shifts_right_cart'])",
      "fire", "R05.3"),
    V("neutral: reorder clears caches before permuting names", SR,
      "        if hasattr(self, 'wannier_names'):\n            self.wannier_names = self.wannier_names[new_wann_indices]\n        self.clear_cached_wcc()\n        self.clear_cached_R()\n",
      "        self.clear_cached_wcc()\n        self.clear_cached_R()\n        if hasattr(self, 'wannier_names'):\n            self.wannier_names = self.wannier_names[new_wann_indices]\n",
      "silent"),
]
