"""C05 — invariance under relabelling the Wannier basis (structural clause: per-Wannier-function state coverage).

R05.1 every mutator of System_R that permutes/doubles Wannier functions rewrites ALL per-WF state with the SAME index:
      centres (axis 0), every real-space matrix (axes 1 and 2), the R-vector shifts (left and right), optional names;
      cached derived state is invalidated after the last write on all paths.
R05.2 Rvectors.reorder permutes both shift arrays when called with one order (path-sensitive None analysis) and clears
      its caches; Rvectors.double_spin doubles both.
R05.3 the shift-dependent factors are derived from the shifts (cRvec_shifted depends on shifts_left/right) and are in the
      cache-clear list.
"""
from __future__ import annotations

import ast
from typing import Dict, List, Optional, Set, Tuple

from ..index import AnalysisError, call_name, norm, norm1
from ..sem import Sem, helper_calls
from .common import calls, enclosing, fctx, in_body, is_name, kwarg, method_calls, stmts, store_targets

LEVEL = "other"
EXPLANATION = (
    "The per-Wannier-function state of a System_R is the frozen set {wannier_centers_cart (axis 0), every _XX_R[key] "
    "(axes 1 and 2), rvec.shifts_left_red / shifts_right_red, wannier_names}. For each mutator (reorder, "
    "spin_block2interlace, double_spin) the rule checks that every element is rewritten, that both matrix axes are indexed "
    "with the same index expression that also re-indexes the centres and is handed to rvec.reorder, and (CFG must-pass) "
    "that clear_cached_wcc() follows the centre write on every path. Rvectors.reorder is abstractly executed for the call "
    "shape reorder(order) with a three-valued None domain over its two parameters: on every path both shift arrays must "
    "end up permuted by that order. Decides that relabelling cannot leave one piece of per-WF state in the old order; does "
    "not decide numerical invariance, nor unitary rotations among co-centred functions.")

SR = "wannierberri/system/system_R.py"
RV = "wannierberri/fourier/rvectors.py"


def _matrix_reindex(f) -> List[Tuple[ast.stmt, List[str]]]:
    """Statements `self._XX_R[key] = val[:, :, I][:, I, :]` → (stmt, [index on axis 2, index on axis 1])."""
    out = []
    for s in stmts(f.node):
        if isinstance(s, ast.Assign) and isinstance(s.targets[0], ast.Subscript) and norm(s.targets[0].value) == "self._XX_R":
            idxs = []
            e = s.value
            while isinstance(e, ast.Subscript):
                sl = e.slice
                elts = sl.elts if isinstance(sl, ast.Tuple) else [sl]
                pos = [(i, norm(x)) for i, x in enumerate(elts) if norm(x) != ":"]
                idxs += pos
                e = e.value
            out.append((s, idxs))
    return out


def _paths(body: List[ast.stmt], env: Dict[str, object]):
    """Enumerate paths through straight-line code with ifs; conditions on `<param> is [not] None` are decided from env
    (values: 'X' = some order, None, or a name alias), others fork. Yields final env per path."""
    if not body:
        yield env
        return
    s, rest = body[0], body[1:]
    if isinstance(s, ast.If):
        dec = _decide(s.test, env)
        branches = []
        if dec in (True, None):
            branches.append(s.body)
        if dec in (False, None):
            branches.append(s.orelse)
        for b in branches:
            for e1 in _paths(list(b), dict(env)):
                yield from _paths(rest, e1)
        return
    if isinstance(s, ast.Assign) and len(s.targets) == 1 and isinstance(s.targets[0], ast.Tuple) and isinstance(s.value, ast.Tuple) \
            and len(s.targets[0].elts) == len(s.value.elts) and all(isinstance(t_, ast.Name) for t_ in s.targets[0].elts):
        e = dict(env)
        vals_ = [_value(v_, env) for v_ in s.value.elts]
        for t_, v_ in zip(s.targets[0].elts, vals_):
            e[t_.id] = v_
        yield from _paths(rest, e)
        return
    if isinstance(s, ast.Assign) and len(s.targets) == 1:
        t = s.targets[0]
        e = dict(env)
        if isinstance(t, ast.Name):
            e[t.id] = _value(s.value, env)
        elif isinstance(t, ast.Attribute) and norm(t.value) == "self":
            e["self." + t.attr] = _value(s.value, env)
        yield from _paths(rest, e)
        return
    if isinstance(s, ast.Expr) and isinstance(s.value, ast.Call) and norm(s.value.func) == "self.clear_cached":
        e = dict(env)
        e["__cleared__"] = True
        yield from _paths(rest, e)
        return
    yield from _paths(rest, env)


def _value(v: ast.AST, env):
    if isinstance(v, ast.IfExp):
        dec = _decide(v.test, env)
        if dec is True:
            return _value(v.body, env)
        if dec is False:
            return _value(v.orelse, env)
        return "?" + norm1(v, 40)
    if isinstance(v, ast.Name):
        return env.get(v.id, "?" + v.id)
    if isinstance(v, ast.Constant) and v.value is None:
        return None
    if isinstance(v, ast.Subscript) and isinstance(v.value, ast.Attribute) and norm(v.value.value) == "self":
        base = env.get("self." + v.value.attr, ("orig", v.value.attr))
        ix = _value(v.slice, env) if isinstance(v.slice, ast.Name) else "?" + norm(v.slice)
        return ("indexed", base, ix)
    if isinstance(v, ast.Attribute) and norm(v.value) == "self":
        return env.get("self." + v.attr, ("orig", v.attr))
    if isinstance(v, ast.Call):
        return "?" + norm1(v, 40)
    return "?" + norm1(v, 40)


def _decide(t: ast.AST, env) -> Optional[bool]:
    if isinstance(t, ast.BoolOp):
        vals = [_decide(v, env) for v in t.values]
        if isinstance(t.op, ast.And):
            if any(v is False for v in vals):
                return False
            return True if all(v is True for v in vals) else None
        if any(v is True for v in vals):
            return True
        return False if all(v is False for v in vals) else None
    if isinstance(t, ast.Compare) and len(t.ops) == 1 and isinstance(t.left, ast.Name) and t.left.id in env \
            and isinstance(t.comparators[0], ast.Constant) and t.comparators[0].value is None:
        isnone = env[t.left.id] is None
        if isinstance(t.ops[0], ast.Is):
            return isnone
        if isinstance(t.ops[0], ast.IsNot):
            return not isnone
    return None


def _canon_idx(S: Sem, e: ast.AST, at: int) -> str:
    """index expression with conversions that keep the values (np.asarray, np.array, list, tuple) removed"""
    r = S.resolve(e, at)
    while isinstance(r, ast.Call) and call_name(r) in ("np.asarray", "np.array", "numpy.asarray", "numpy.array", "list", "tuple") and r.args:
        r = r.args[0]
    return norm(r)


def _reindex_form(idx, S: Sem, f, e: ast.AST, at: int, depth: int = 3):
    """('gather' | 'scatter' | None, base text, [(axis, index text)]) for an expression that re-indexes an array:
    chained subscripts X[:, :, O][:, O], X[:, O[:, None], O[None, :]], X[:, r, c] with r, c = np.ix_(O, O), np.take(X, O, axis=a),
    or a private helper that does one of these — or that fills a new array through an index store (a scatter)."""
    r = S.resolve(e, at)
    idxs: List[Tuple[int, str]] = []

    def one_index(x: ast.AST) -> Optional[str]:
        """the permutation behind an index expression, whatever broadcasting shape it is given"""
        y = x
        if isinstance(y, ast.Subscript) and isinstance(y.value, ast.Call) and call_name(y.value) in ("np.ix_", "numpy.ix_") and isinstance(y.slice, ast.Constant) \
                and isinstance(y.slice.value, int) and y.slice.value < len(y.value.args):
            y = y.value.args[y.slice.value]
        elif isinstance(y, ast.Subscript) and isinstance(y.slice, ast.Tuple) and all(norm(z) in (":", "None", "np.newaxis") for z in y.slice.elts):
            y = y.value
        while isinstance(y, ast.Call) and call_name(y) in ("np.asarray", "np.array", "list", "tuple") and y.args:
            y = y.args[0]
        return norm(y)

    cur = r
    for _ in range(6):
        if isinstance(cur, ast.Subscript):
            sl = cur.slice
            elts = sl.elts if isinstance(sl, ast.Tuple) else [sl]
            if len(elts) == 1 and not isinstance(elts[0], ast.Slice) and norm(cur.value) == "self._XX_R":
                break
            idxs += [(i_, one_index(x)) for i_, x in enumerate(elts) if norm(x) != ":"]
            cur = cur.value
            continue
        if isinstance(cur, ast.Call) and call_name(cur) in ("np.take", "numpy.take") and len(cur.args) >= 2:
            ax = kwarg(cur, "axis", 2)
            if ax is None or not isinstance(ax, ast.Constant):
                return None, norm(cur), idxs
            idxs.append((ax.value, one_index(cur.args[1])))
            cur = cur.args[0]
            continue
        break
    if idxs:
        return "gather", norm(cur), idxs
    # a private helper
    if isinstance(cur, ast.Call) and depth > 0:
        for g, c_, S_g in helper_calls(idx, S):
            if norm(c_) == norm(e) or c_ is e or norm(c_) == norm(cur):
                rets = [x for x in stmts(g.node) if isinstance(x, ast.Return) and x.value is not None]
                if len(rets) != 1:
                    return None, norm(cur), []
                rv = rets[0].value
                params = [p_ for p_ in g.params if p_ not in ("self", "cls")]
                bind = {p_: a_ for p_, a_ in zip(params, c_.args)}
                bind.update({k.arg: k.value for k in c_.keywords if k.arg})

                def to_caller(txt_node: ast.AST) -> str:
                    return norm(S._subst(txt_node, bind))
                if isinstance(rv, ast.Name):
                    ds = S_g.du.reaching(rv.id, S_g.cfg.node(rets[0]))
                    made = ds[0].value if len(ds) == 1 else None
                    stores = [x for x in stmts(g.node) if isinstance(x, ast.Assign) and isinstance(x.targets[0], ast.Subscript) and norm(x.targets[0].value) == rv.id]
                    if isinstance(made, ast.Call) and call_name(made).split(".")[-1] in ("empty_like", "zeros_like", "empty", "zeros") and len(stores) == 1:
                        S_g.inline_helpers = False
                        t_ = stores[0].targets[0]
                        elts = t_.slice.elts if isinstance(t_.slice, ast.Tuple) else [t_.slice]
                        sc = []
                        for i_, x in enumerate(elts):
                            if norm(x) != ":":
                                xr = S_g._subst(S_g.resolve(x, S_g.cfg.node(stores[0]), through_caller=False), bind)
                                sc.append((i_, one_index(xr)))
                        return "scatter", to_caller(stores[0].value), sc
                kind, base, ix = _reindex_form(idx, S_g, g, rv, S_g.cfg.node(rets[0]), depth - 1)
                if kind is not None:
                    S_g2 = S_g
                    base_c = norm(S._subst(ast.parse(base, mode="eval").body, bind))
                    ix_c = [(a_, norm(S._subst(ast.parse(t_, mode="eval").body, bind))) for a_, t_ in ix]
                    return kind, base_c, ix_c
                return None, norm(cur), []
    return None, norm(cur), []


def run(ctx) -> None:
    idx = ctx.index

    # ---------------------------------------------------------------- R05.1
    r1 = ctx.rule("R05.1", "System_R mutators rewrite all per-WF state with one index and invalidate caches", min_instances=3)
    for q in ("System_R.reorder", "System_R.spin_block2interlace"):
        f = idx.function(SR, q)
        cfg, du, pm = fctx(f)
        r1.instance(f.short)
        cst = [s for s in stmts(f.node) if isinstance(s, ast.Assign) and norm(s.targets[0]) == "self.wannier_centers_cart"]
        if len(cst) != 1 or not isinstance(cst[0].value, ast.Subscript) or norm(cst[0].value.value) != "self.wannier_centers_cart":
            r1.violation(f, f.node, f"{q} does not permute wannier_centers_cart", stmt="centres")
            continue
        S = Sem(idx, f)
        I = _canon_idx(S, cst[0].value.slice, S.cfg.node(cst[0]))
        mats = []    # (function, stmt, kind, [(axis, index text)], covers every key)
        XXR_ITERS = ("self._XX_R", "self._XX_R.keys()", "list(self._XX_R)", "list(self._XX_R.keys())")
        for st_ in stmts(f.node):
            if isinstance(st_, ast.Assign) and isinstance(st_.targets[0], ast.Subscript) and norm(st_.targets[0].value) == "self._XX_R":
                keyv = norm(st_.targets[0].slice)
                lp_ = enclosing(S.pm, st_, ast.For)
                bases = {f"self._XX_R[{keyv}]"}
                allkeys = False
                if lp_ is not None and norm(lp_.iter) == "self._XX_R.items()" and isinstance(lp_.target, ast.Tuple) and norm(lp_.target.elts[0]) == keyv:
                    allkeys = True
                    bases.add(norm(lp_.target.elts[1]))
                elif lp_ is not None and norm(lp_.iter) in XXR_ITERS and norm(lp_.target) == keyv:
                    allkeys = True
                kind, base, idxs = _reindex_form(idx, S, f, st_.value, S.cfg.node(st_))
                mats.append((f, st_, kind, idxs, allkeys and base in bases))
            elif (isinstance(st_, ast.Assign) and norm(st_.targets[0]) == "self._XX_R" and isinstance(st_.value, ast.DictComp) and len(st_.value.generators) == 1) or \
                    (isinstance(st_, ast.Expr) and isinstance(st_.value, ast.Call) and norm(st_.value.func) == "self._XX_R.update" and len(st_.value.args) == 1
                     and isinstance(st_.value.args[0], ast.DictComp) and len(st_.value.args[0].generators) == 1):
                # self._XX_R = {k: f(v) …}  or  self._XX_R.update({k: f(v) …}) over all items: every key gets its re-indexed matrix
                dc_ = st_.value if isinstance(st_, ast.Assign) else st_.value.args[0]
                st_ = ast.copy_location(ast.Assign(targets=[ast.Attribute(value=ast.Name(id="self", ctx=ast.Load()), attr="_XX_R", ctx=ast.Store())], value=dc_,
                                                   lineno=st_.lineno), st_) if not isinstance(st_, ast.Assign) else st_
                at_dc = S.cfg.node(next(x_ for x_ in stmts(f.node) if x_.lineno == st_.lineno)) if not any(x_ is st_ for x_ in stmts(f.node)) else S.cfg.node(st_)
                ge = st_.value.generators[0]
                allkeys = not ge.ifs and norm(ge.iter) == "self._XX_R.items()" and isinstance(ge.target, ast.Tuple) and len(ge.target.elts) == 2 \
                    and norm(st_.value.key) == norm(ge.target.elts[0])
                bases = {norm(ge.target.elts[1]), f"self._XX_R[{norm(ge.target.elts[0])}]"} if isinstance(ge.target, ast.Tuple) else set()
                S.keep_names = S.keep_names | {n_.id for n_ in ast.walk(ge.target) if isinstance(n_, ast.Name)}
                kind, base, idxs = _reindex_form(idx, S, f, st_.value.value, at_dc)
                mats.append((f, st_, kind, idxs, allkeys and base in bases))
        for g, _c, S_g in helper_calls(idx, S):
            for st_ in stmts(g.node):
                if isinstance(st_, ast.Assign) and isinstance(st_.targets[0], ast.Subscript) and norm(st_.targets[0].value) == "self._XX_R":
                    keyv = norm(st_.targets[0].slice)
                    lp_ = enclosing(S_g.pm, st_, ast.For)
                    allkeys = lp_ is not None and ((norm(lp_.iter) == "self._XX_R.items()" and isinstance(lp_.target, ast.Tuple) and norm(lp_.target.elts[0]) == keyv)
                                                   or (norm(lp_.iter) in XXR_ITERS and norm(lp_.target) == keyv))
                    kind, base, idxs = _reindex_form(idx, S_g, g, st_.value, S_g.cfg.node(st_))
                    mats.append((g, st_, kind, idxs, allkeys and base == f"self._XX_R[{keyv}]"))
        okm = len(mats) == 1 and mats[0][2] == "gather" and sorted(mats[0][3]) == [(1, I), (2, I)] and mats[0][4]
        how = "nothing" if not mats else (f"a {mats[0][2]} with {mats[0][3]}" if mats[0][2] else "a construction the checker cannot read as an index permutation")
        r1.check(okm, f"every _XX_R[key] is re-indexed with `{I}` on both Wannier axes", mats[0][0] if mats else f, mats[0][1] if mats else f.node,
                 f"{q}: the real-space matrices are re-indexed by {how} while the centres are gathered with `{I}`"
                 f"{'' if (mats and mats[0][4]) else ' (or not for every key of self._XX_R)'}"
                 f"{': a scatter applies the INVERSE permutation' if mats and mats[0][2] == 'scatter' else ''}: rows, columns and centres end up in different orders")
        rc = [c for c in method_calls(f.node, "reorder") if norm(c.func.value) == "self.rvec"]
        okr = False
        if len(rc) == 1:
            a0 = kwarg(rc[0], "order_left", 0)
            a1 = kwarg(rc[0], "order_right", 1)
            okr = a0 is not None and _canon_idx(S, a0, S.du.node_of_expr(rc[0])) == I and (a1 is None or _canon_idx(S, a1, S.du.node_of_expr(rc[0])) == I)
        r1.check(okr, f"rvec.reorder({I}) permutes the centre shifts with the same index", f, rc[0] if rc else f.node,
                 f"{q}: the R-vector shifts are re-ordered with `{norm1(rc[0]) if rc else 'nothing'}` but centres/matrices with `{I}`: "
                 f"derivatives use R + τj − τi of the wrong functions")
        clears = [cfg.node(enclosing(pm, c, ast.stmt)) for c in method_calls(f.node, "clear_cached_wcc") if norm(c.func.value) == "self"]
        snode = cfg.node(cst[0])
        r1.check(bool(clears) and cfg.must_pass(snode, clears), "clear_cached_wcc() follows the centre write on every path", f, cst[0],
                 f"{q} rewrites wannier_centers_cart but does not call clear_cached_wcc() afterwards on every path: the cached "
                 f"`wannier_centers_red` keeps the old order and later consumers (do_ws_dist, get_sparse, symmetrize) mix orders",
                 path=cfg.describe_path(cfg.path_avoiding(snode, cfg.exit, clears) or []))
        if q.endswith(".reorder"):
            wn = [s for s in stmts(f.node) if isinstance(s, ast.Assign) and norm(s.targets[0]) == "self.wannier_names"]
            r1.check(len(wn) == 1 and isinstance(wn[0].value, ast.Subscript) and norm(wn[0].value.value) == "self.wannier_names"
                     and _canon_idx(S, wn[0].value.slice, S.cfg.node(wn[0])) == I, "optional wannier_names follow the same order", f,
                     wn[0] if wn else f.node, f"{q}: wannier_names are not permuted with `{I}`")
    ds = idx.function(SR, "System_R.double_spin")
    r1.instance(ds.short)
    cfg, du, pm = fctx(ds)
    from .c25 import double_spin_rule
    double_spin_rule(ctx, r1)
    cst = [s for s in stmts(ds.node) if isinstance(s, ast.Assign) and "self.wannier_centers_cart" in norm(s.targets[0])]
    clears = [cfg.node(enclosing(pm, c, ast.stmt)) for c in method_calls(ds.node, "clear_cached_wcc")]
    r1.check(bool(clears) and all(cfg.must_pass(cfg.node(s), clears) for s in cst), "double_spin: caches cleared after the centre writes", ds,
             cst[-1] if cst else ds.node, "double_spin does not clear the cached centres after rewriting them")

    # ---------------------------------------------------------------- R05.2
    r2 = ctx.rule("R05.2", "Rvectors.reorder / double_spin act on both shift arrays", min_instances=2)
    ro = idx.function(RV, "Rvectors.reorder")
    r2.instance(ro.short)
    a = ro.node.args.args
    from ..sem import inline_private_helpers as _iph5
    ro = _iph5(idx, ro)
    if [x.arg for x in a] != ["self", "order_left", "order_right"]:
        raise AnalysisError("Rvectors.reorder signature changed")
    npaths = 0
    bad = None
    for has_right in ("separate", "aliased"):
        env0 = {"order_left": "X", "order_right": None}
        for env in _paths(list(ro.node.body), env0):
            npaths += 1
            left = env.get("self.shifts_left_red")
            right = env.get("self.shifts_right_red")
            okl = left == ("indexed", ("orig", "shifts_left_red"), "X")
            okr = right == ("indexed", ("orig", "shifts_right_red"), "X") or (right == left and okl)
            if not (okl and okr and env.get("__cleared__")):
                bad = (left, right, env.get("__cleared__"))
    r2.check(bad is None and npaths > 0, f"reorder(order): on all {npaths} paths both shift arrays are permuted by `order` and caches cleared",
             ro, ro.node, f"Rvectors.reorder(order) has a path where the shifts end as left={bad[0] if bad else None}, "
             f"right={bad[1] if bad else None}, caches cleared={bad[2] if bad else None}: only one side of R + τj − τi follows the new "
             f"order of the Wannier functions", stmt="reorder(order) paths")
    r2.instance("Rvectors.double_spin (decided with System_R.double_spin under R05.1)")

    # ---------------------------------------------------------------- R05.3
    r3 = ctx.rule("R05.3", "shift-dependent cached quantities are invalidated by clear_cached")
    cc = idx.function(RV, "Rvectors.clear_cached")
    r3.instance(cc.short)
    names = [c.value for c in ast.walk(cc.node) if isinstance(c, ast.Constant) and isinstance(c.value, str)]
    rvc = idx.cls(RV, "Rvectors")
    # cached properties on the dependency chain of the derivative factors R + τj − τi (anchor: cRvec_shifted)
    cached = {m.name: m for m in rvc.methods.values() if any(d.endswith("cached_property") for d in m.decorators)}
    if "cRvec_shifted" not in cached:
        raise AnalysisError("Rvectors.cRvec_shifted is no longer a cached property")
    dependent, work = [], ["cRvec_shifted"]
    while work:
        nme = work.pop()
        if nme in dependent:
            continue
        dependent.append(nme)
        for x in ast.walk(cached[nme].node):
            if isinstance(x, ast.Attribute) and isinstance(x.value, ast.Name) and x.value.id == "self" and x.attr in cached:
                work.append(x.attr)
    tcs = norm(cached["cRvec_shifted"].node)
    r3.check("self.shifts_diff_cart" in tcs and "self.cRvec" in tcs, "cRvec_shifted = cRvec + (τj − τi)", cached["cRvec_shifted"],
             cached["cRvec_shifted"].node, "cRvec_shifted is no longer built from cRvec and the shift differences", stmt="cRvec_shifted")
    # … and every cached property that (transitively) reads state which the re-indexing methods rewrite before they call clear_cached()
    rewritten = set()
    reindexers_ = {"reorder", "double_spin"}      # the methods judged by R05.2 (set_Rvec only runs on a freshly constructed object)
    for m_ in rvc.methods.values():
        if m_.name in reindexers_ and any(isinstance(c_, ast.Call) and norm(c_.func) == "self.clear_cached" for c_ in ast.walk(m_.node)):
            for st_ in ast.walk(m_.node):
                tg_ = st_.targets if isinstance(st_, ast.Assign) else [st_.target] if isinstance(st_, ast.AugAssign) else []
                for t_ in tg_:
                    for x_ in (t_.elts if isinstance(t_, ast.Tuple) else [t_]):
                        if isinstance(x_, ast.Attribute) and isinstance(x_.value, ast.Name) and x_.value.id == "self":
                            rewritten.add(x_.attr)
    props_ = {m.name: m for m in rvc.methods.values() if any(d.endswith("cached_property") or d == "property" for d in m.decorators)}

    def reads_(nme, seen_):
        out_ = set()
        if nme in seen_ or nme not in props_:
            return out_
        seen_.add(nme)
        # reads of the shape only (`self.X.shape[0]`, `len(self.X)`, `.ndim`) do not depend on the order of the entries
        shape_only = set()
        for x in ast.walk(props_[nme].node):
            if isinstance(x, ast.Attribute) and x.attr in ("shape", "ndim", "size") and isinstance(x.value, ast.Attribute):
                shape_only.add(id(x.value))
            elif isinstance(x, ast.Call) and call_name(x) == "len" and len(x.args) == 1 and isinstance(x.args[0], ast.Attribute):
                shape_only.add(id(x.args[0]))
        for x in ast.walk(props_[nme].node):
            if id(x) in shape_only:
                continue
            if isinstance(x, ast.Attribute) and isinstance(x.value, ast.Name) and x.value.id == "self":
                out_.add(x.attr)
                out_ |= reads_(x.attr, seen_)
            elif isinstance(x, ast.Call) and call_name(x) == "getattr" and len(x.args) >= 2 and norm(x.args[0]) == "self" and isinstance(x.args[1], ast.Constant):
                out_.add(x.args[1].value)
                out_ |= reads_(x.args[1].value, seen_)
        return out_
    r3.expect(bool(rewritten), "state rewritten before clear_cached located", cc, cc.node, "Rvectors: no method assigns attributes and then calls self.clear_cached()")
    for nme in sorted(cached):
        if reads_(nme, set()) & rewritten and nme not in dependent:
            dependent.append(nme)
    missing = [d for d in dependent if d not in names]
    r3.check(not missing and bool(dependent), f"all {len(dependent)} cached properties that depend on {sorted(rewritten)} ({sorted(dependent)}) are in the clear list", cc, cc.node,
             f"cached properties {missing} depend on the shifts but are not cleared by Rvectors.clear_cached: after a reorder they keep "
             f"the old order", stmt=f"missing {missing}")
    sc = idx.function(SR, "System_R.clear_cached_wcc")
    SCS = Sem(idx, sc)
    cl1 = [c_ for c_ in ast.walk(sc.node) if isinstance(c_, ast.Call) and call_name(c_) == "clear_cached" and len(c_.args) == 2 and norm(c_.args[0]) == "self"]
    names_cleared: List[str] = []
    for c_ in cl1:
        l_ = SCS.resolve(c_.args[1], SCS.du.node_of_expr(c_))
        if isinstance(l_, (ast.List, ast.Tuple, ast.Set)):
            names_cleared += [e_.value for e_ in l_.elts if isinstance(e_, ast.Constant)]
    cl2 = [c_ for c_ in ast.walk(sc.node) if isinstance(c_, ast.Call) and norm(c_.func) == "self.rvec.clear_cached" and not c_.args]
    r3.check("wannier_centers_red" in names_cleared and bool(cl2), "clear_cached_wcc clears the reduced centres and the rvec caches",
             sc, sc.node, "System_R.clear_cached_wcc no longer clears wannier_centers_red / rvec caches", stmt="clear_cached_wcc")


from ..selftest import V  # noqa: E402

SELFTEST = [
    V("matrices scattered instead of gathered (seeded C05-m3)", SR,
      "        for key, val in self._XX_R.items():\n            self._XX_R[key] = val[:, :, new_wann_indices][:, new_wann_indices, :]\n",
      "        for key, val in self._XX_R.items():\n            new = np.empty_like(val)\n            new[:, new_wann_indices[:, None], new_wann_indices[None, :]] = val\n            self._XX_R[key] = new\n",
      "fire", "R05.1"),
    V("neutral: matrices gathered through np.ix_", SR,
      "        for key, val in self._XX_R.items():\n            self._XX_R[key] = val[:, :, new_wann_indices][:, new_wann_indices, :]\n",
      "        rows, cols = np.ix_(new_wann_indices, new_wann_indices)\n        for key, val in self._XX_R.items():\n            self._XX_R[key] = val[:, rows, cols]\n",
      "silent"),
    V("neutral: matrices re-indexed by a dict comprehension and np.take", SR,
      "        for key, val in self._XX_R.items():\n            self._XX_R[key] = val[:, :, new_wann_indices][:, new_wann_indices, :]\n",
      "        self._XX_R = {key: np.take(np.take(val, new_wann_indices, axis=1), new_wann_indices, axis=2) for key, val in self._XX_R.items()}\n",
      "silent"),
    V("clear_cached_wcc forgets the R-vector caches", SR, "            self.rvec.clear_cached()\n", "            pass\n", "fire", "R05.3"),
    V("reorder: cache invalidation dropped (seeded C05-m1)", SR,
      "            self.wannier_names = self.wannier_names[new_wann_indices]\n        self.clear_cached_wcc()\n        self.clear_cached_R()\n",
      "            self.wannier_names = self.wannier_names[new_wann_indices]\n", "fire", "R05.1"),
    V("reorder: columns permuted, rows not", SR, "self._XX_R[key] = val[:, :, new_wann_indices][:, new_wann_indices, :]",
      "self._XX_R[key] = val[:, :, new_wann_indices]", "fire", "R05.1"),
    V("reorder: shifts not permuted", SR, "        self.rvec.reorder(new_wann_indices)\n        if hasattr(self, 'wannier_names'):",
      "        if hasattr(self, 'wannier_names'):", "fire", "R05.1"),
    V("spin_block2interlace: centres permuted with the inverse map", SR,
      "        self.wannier_centers_cart = self.wannier_centers_cart[mapping]\n        self.rvec.reorder(mapping)",
      "        self.wannier_centers_cart = self.wannier_centers_cart[np.argsort(mapping)]\n        self.rvec.reorder(mapping)", "fire", "R05.1"),
    V("Rvectors.reorder: None keeps the side (seeded C05-m2)", RV,
      "        if order_right is None:\n            order_right = order_left\n        if order_left is None:\n            order_left = order_right\n        self.shifts_left_red = self.shifts_left_red[order_left]\n        self.shifts_right_red = self.shifts_right_red[order_right]\n",
      "        if order_left is not None:\n            self.shifts_left_red = self.shifts_left_red[order_left]\n        if self.has_shifts_right:\n            if order_right is not None:\n                self.shifts_right_red = self.shifts_right_red[order_right]\n        else:\n            self.shifts_right_red = self.shifts_left_red\n",
      "fire", "R05.2"),
    V("Rvectors.reorder forgets to clear caches", RV,
      "        self.shifts_right_red = self.shifts_right_red[order_right]\n        self.clear_cached()\n",
      "        self.shifts_right_red = self.shifts_right_red[order_right]\n", "fire", "R05.2"),
    V("cRvec_shifted removed from the clear list", RV, "'shifts_left_cart', 'shifts_right_cart', 'cRvec_shifted'])", "'shifts_left_cart', 'shifts_right_cart'])",
      "fire", "R05.3"),
    V("neutral: reorder clears caches before permuting names", SR,
      "        if hasattr(self, 'wannier_names'):\n            self.wannier_names = self.wannier_names[new_wann_indices]\n        self.clear_cached_wcc()\n        self.clear_cached_R()\n",
      "        self.clear_cached_wcc()\n        self.clear_cached_R()\n        if hasattr(self, 'wannier_names'):\n            self.wannier_names = self.wannier_names[new_wann_indices]\n",
      "silent"),
]
