"""Helpers shared by the rule modules."""
from __future__ import annotations

import ast
from typing import Callable, Dict, Iterable, Iterator, List, Optional, Sequence, Set, Tuple

from ..cfg import CFG, build_cfg
from ..defuse import DefUse
from ..index import (AnalysisError, FunctionInfo, call_name, dotted, norm, norm1, parent_map, walk_no_nested)

_cache: Dict[int, tuple] = {}


def fctx(fi_or_node) -> Tuple[CFG, DefUse, Dict[ast.AST, ast.AST]]:
    node = fi_or_node.node if isinstance(fi_or_node, FunctionInfo) else fi_or_node
    k = id(node)
    if k not in _cache or _cache[k][0] is not node:
        cfg = build_cfg(node)
        # the node itself is kept in the entry so that its id() cannot be recycled for another tree
        _cache[k] = (node, cfg, DefUse(node, cfg), parent_map(node))
    return _cache[k][1:]


def calls(node: ast.AST, *names: str, suffix: bool = True) -> List[ast.Call]:
    """Calls under `node` whose dotted callee equals one of `names` or (suffix=True) ends with `.name`."""
    out = []
    for n in ast.walk(node):
        if isinstance(n, ast.Call):
            cn = call_name(n)
            for want in names:
                if cn == want or (suffix and cn.endswith("." + want)):
                    out.append(n)
                    break
    return out


def method_calls(node: ast.AST, attr: str) -> List[ast.Call]:
    return [n for n in ast.walk(node) if isinstance(n, ast.Call) and isinstance(n.func, ast.Attribute)
            and n.func.attr == attr]


def stmts(func: ast.AST) -> Iterator[ast.stmt]:
    for n in walk_no_nested(func, include_self=False):
        if isinstance(n, ast.stmt):
            yield n


def nested_functions(func: ast.AST) -> Dict[str, ast.FunctionDef]:
    out = {}
    for n in ast.walk(func):
        if n is not func and isinstance(n, (ast.FunctionDef, ast.AsyncFunctionDef)):
            out[n.name] = n
    return out


def assigned_names(stmt: ast.stmt) -> List[str]:
    out: List[str] = []
    tg: List[ast.AST] = []
    if isinstance(stmt, ast.Assign):
        tg = list(stmt.targets)
    elif isinstance(stmt, (ast.AugAssign, ast.AnnAssign)):
        tg = [stmt.target]
    for t in tg:
        for x in ast.walk(t):
            if isinstance(x, ast.Name) and isinstance(x.ctx, ast.Store):
                out.append(x.id)
    return out


def store_targets(stmt: ast.stmt) -> List[ast.AST]:
    if isinstance(stmt, ast.Assign):
        out = []
        for t in stmt.targets:
            out += flatten(t)
        return out
    if isinstance(stmt, (ast.AugAssign, ast.AnnAssign)):
        return flatten(stmt.target)
    return []


def flatten(t: ast.AST) -> List[ast.AST]:
    if isinstance(t, (ast.Tuple, ast.List)):
        out: List[ast.AST] = []
        for e in t.elts:
            out += flatten(e)
        return out
    if isinstance(t, ast.Starred):
        return flatten(t.value)
    return [t]


def same(a: Optional[ast.AST], b: Optional[ast.AST]) -> bool:
    if a is None or b is None:
        return a is b
    return norm(a) == norm(b)


def is_name(e: ast.AST, name: str) -> bool:
    return isinstance(e, ast.Name) and e.id == name


def is_const(e: ast.AST, value) -> bool:
    return isinstance(e, ast.Constant) and e.value == value and type(e.value) is type(value)


def enclosing(pm: Dict[ast.AST, ast.AST], n: ast.AST, types) -> Optional[ast.AST]:
    while n in pm:
        n = pm[n]
        if isinstance(n, types):
            return n
    return None


def enclosing_all(pm: Dict[ast.AST, ast.AST], n: ast.AST, types) -> List[ast.AST]:
    out = []
    while n in pm:
        n = pm[n]
        if isinstance(n, types):
            out.append(n)
    return out


def in_body(stmt_list: Sequence[ast.stmt], n: ast.AST) -> bool:
    for s in stmt_list:
        for x in ast.walk(s):
            if x is n:
                return True
    return False


def attr_chain_root(e: ast.AST) -> Optional[str]:
    while isinstance(e, (ast.Attribute, ast.Subscript, ast.Call)):
        e = e.value if not isinstance(e, ast.Call) else e.func
    return e.id if isinstance(e, ast.Name) else None


def strip_subscripts(e: ast.AST) -> ast.AST:
    while isinstance(e, ast.Subscript):
        e = e.value
    return e


def fstring_pattern(e: ast.AST) -> Optional[str]:
    """Abstract an f-string / str literal to a pattern: literal text with `{}` for every interpolation
    (format specs kept as `{:spec}`)."""
    if isinstance(e, ast.Constant) and isinstance(e.value, str):
        return e.value
    if isinstance(e, ast.JoinedStr):
        out = ""
        for v in e.values:
            if isinstance(v, ast.Constant):
                out += str(v.value)
            elif isinstance(v, ast.FormattedValue):
                spec = ""
                if v.format_spec is not None:
                    spec = ":" + "".join(str(x.value) for x in v.format_spec.values if isinstance(x, ast.Constant))
                out += "{" + spec + "}"
        return out
    if isinstance(e, ast.BinOp) and isinstance(e.op, ast.Add):
        l, r = fstring_pattern(e.left), fstring_pattern(e.right)
        return None if l is None or r is None else l + r
    if isinstance(e, ast.Call) and isinstance(e.func, ast.Attribute) and e.func.attr == "format" and isinstance(e.func.value, ast.Constant) \
            and isinstance(e.func.value.value, str) and not e.keywords:
        import re as _re
        return _re.sub(r"\{[^}:]*(:[^}]*)?\}", lambda m_: "{" + (m_.group(1) or "") + "}", e.func.value.value)
    return None


# ---------------------------------------------------------------------- structural pattern matching with metavariables

class _NoMatch(Exception):
    pass


def _unify(p: ast.AST, n: ast.AST, metas, b: Dict[str, str]) -> None:
    if isinstance(p, ast.Name) and p.id in metas:
        if p.id == "ANY":
            return
        t = norm(n)
        if p.id in b and b[p.id] != t:
            raise _NoMatch()
        b[p.id] = t
        return
    if isinstance(p, ast.Expr) and not isinstance(n, ast.Expr):
        return _unify(p.value, n, metas, b)
    if type(p) is not type(n):
        # a list comprehension and a generator expression consumed by the same call are interchangeable
        if not (isinstance(p, (ast.ListComp, ast.GeneratorExp)) and isinstance(n, (ast.ListComp, ast.GeneratorExp))):
            raise _NoMatch()
    for fname, pv in ast.iter_fields(p):
        if fname in ("ctx", "lineno", "col_offset", "end_lineno", "end_col_offset", "type_comment", "kind"):
            continue
        nv = getattr(n, fname, None)
        if isinstance(pv, list):
            if not isinstance(nv, list):
                raise _NoMatch()
            if any(_is_gap(a) for a in pv):
                _unify_seq(pv, nv, metas, b)
                continue
            if len(pv) != len(nv):
                raise _NoMatch()
            for a, c in zip(pv, nv):
                if isinstance(a, ast.AST):
                    _unify(a, c, metas, b)
                elif a != c:
                    raise _NoMatch()
        elif isinstance(pv, ast.AST):
            if not isinstance(nv, ast.AST):
                raise _NoMatch()
            _unify(pv, nv, metas, b)
        else:
            if isinstance(p, ast.Constant) and fname == "value":
                if pv != nv or type(pv) is not type(nv):
                    if not (isinstance(pv, (int, float)) and isinstance(nv, (int, float)) and not isinstance(pv, bool)
                            and not isinstance(nv, bool) and float(pv) == float(nv)):
                        raise _NoMatch()
            elif pv != nv:
                raise _NoMatch()


def _is_gap(a) -> bool:
    return isinstance(a, ast.Expr) and isinstance(a.value, ast.Constant) and a.value.value is Ellipsis


def _unify_seq(pv: list, nv: list, metas, b: Dict[str, str]) -> None:
    """Statement-list unification where a bare `...` statement in the pattern matches any run (possibly empty) of statements."""
    def rec(i: int, j: int, bb: Dict[str, str]) -> Optional[Dict[str, str]]:
        if i == len(pv):
            return bb if j == len(nv) else None
        if _is_gap(pv[i]):
            for k in range(j, len(nv) + 1):
                r = rec(i + 1, k, dict(bb))
                if r is not None:
                    return r
            return None
        if j >= len(nv):
            return None
        b2 = dict(bb)
        try:
            _unify(pv[i], nv[j], metas, b2)
        except _NoMatch:
            return None
        return rec(i + 1, j + 1, b2)
    r = rec(0, 0, dict(b))
    if r is None:
        raise _NoMatch()
    b.clear()
    b.update(r)


def pmatch(root: ast.AST, pattern: str, metas: Iterable[str] = (), binding: Optional[Dict[str, str]] = None
           ) -> List[Tuple[ast.AST, Dict[str, str]]]:
    """All sub-nodes of `root` matching the source pattern; identifiers listed in `metas` are metavariables that bind
    (consistently) to arbitrary expressions, `ANY` matches anything without binding, a bare `...` statement matches any run
    of statements.  Robust to renaming of locals,
    formatting and comments; `binding` pre-binds metavariables."""
    metas = set(metas) | {"ANY"}
    pt = ast.parse(pattern.strip()).body[0]
    if isinstance(pt, ast.Expr):
        pt = pt.value
    out = []
    for n in ast.walk(root):
        b = dict(binding or {})
        try:
            _unify(pt, n, metas, b)
        except _NoMatch:
            continue
        out.append((n, b))
    return out


def pfind(root: ast.AST, pattern: str, metas: Iterable[str] = (), binding: Optional[Dict[str, str]] = None):
    """First match (node, binding) or (None, {})."""
    m = pmatch(root, pattern, metas, binding)
    return m[0] if m else (None, {})


# ---------------------------------------------------------------------- rename-robust fragment matching

def local_names(func: ast.AST) -> Set[str]:
    """Names bound inside a function body (assignments, loop/with/except/comprehension targets, walrus) — not parameters."""
    out: Set[str] = set()
    for n in ast.walk(func):
        if isinstance(n, ast.Name) and isinstance(n.ctx, (ast.Store, ast.Del)):
            out.add(n.id)
        elif isinstance(n, ast.ExceptHandler) and n.name:
            out.add(n.name)
    a = getattr(func, "args", None)
    if a is not None:
        for x in a.posonlyargs + a.args + a.kwonlyargs + ([a.vararg] if a.vararg else []) + ([a.kwarg] if a.kwarg else []):
            out.discard(x.arg)
    return out


class Frag:
    """Fragment matcher for one function: patterns are written with the identifiers of today's source; every identifier
    that is a *local* of the function (or is bound inside the pattern itself) is a metavariable, bound consistently
    across all patterns matched through this object.  Renaming locals, reformatting and comments do not affect a match;
    parameters, attributes, names the function only reads (globals, builtins, modules) and constants are matched literally.
    A pattern identifier that does not occur in the function at all is a metavariable too (a renamed local)."""

    def __init__(self, fi_or_node, extra_metas: Iterable[str] = (), literal: Iterable[str] = ()):
        self.node = getattr(fi_or_node, "node", fi_or_node)
        loc = local_names(self.node)
        loaded = {n.id for n in ast.walk(self.node) if isinstance(n, ast.Name) and isinstance(n.ctx, ast.Load)}
        a = getattr(self.node, "args", None)
        params = set()
        if a is not None:
            params = {x.arg for x in a.posonlyargs + a.args + a.kwonlyargs + ([a.vararg] if a.vararg else []) + ([a.kwarg] if a.kwarg else [])}
        # literal: parameters and names the function only reads (globals, builtins, imported modules)
        self.literal = (params | (loaded - loc) | set(literal) | {"self", "cls", "np", "numpy"}) - set(extra_metas)
        self.binding: Dict[str, str] = {}

    def _metas(self, pt: ast.AST) -> Set[str]:
        names = {n.id for n in ast.walk(pt) if isinstance(n, ast.Name)}
        return names - self.literal

    def find(self, pattern: str, root: Optional[ast.AST] = None, bind: bool = True) -> List[Tuple[ast.AST, Dict[str, str]]]:
        pt = ast.parse(pattern.strip())
        metas = self._metas(pt)
        pre = {k: v for k, v in self.binding.items() if k in metas}
        ms = pmatch(root if root is not None else self.node, pattern, metas, pre)
        if ms and bind:
            for k, v in ms[0][1].items():
                self.binding.setdefault(k, v)
        return ms

    def has(self, pattern: str, root: Optional[ast.AST] = None, bind: bool = True) -> bool:
        return bool(self.find(pattern, root, bind))

    def all(self, *patterns: str) -> bool:
        return all(self.has(p) for p in patterns)

    def first(self, pattern: str, root: Optional[ast.AST] = None) -> Optional[ast.AST]:
        ms = self.find(pattern, root)
        return ms[0][0] if ms else None


def kwarg(call: ast.Call, name: str, pos: Optional[int] = None) -> Optional[ast.AST]:
    for k in call.keywords:
        if k.arg == name:
            return k.value
    if pos is not None and pos < len(call.args) and not any(isinstance(a, ast.Starred) for a in call.args[:pos + 1]):
        return call.args[pos]
    return None


def const_of(e: Optional[ast.AST], default=None):
    if e is None:
        return default
    try:
        return ast.literal_eval(e)
    except Exception:
        return ...


def product_factors(e: ast.AST) -> Tuple[int, List[ast.AST]]:
    """Flatten a product/quotient tree: (sign from unary minus, list of factor nodes — divisors included)."""
    sign = 1
    out: List[ast.AST] = []
    work = [e]
    while work:
        x = work.pop()
        if isinstance(x, ast.UnaryOp) and isinstance(x.op, ast.USub):
            sign = -sign
            work.append(x.operand)
        elif isinstance(x, ast.UnaryOp) and isinstance(x.op, ast.UAdd):
            work.append(x.operand)
        elif isinstance(x, ast.BinOp) and isinstance(x.op, (ast.Mult, ast.Div, ast.MatMult)):
            work.append(x.left)
            work.append(x.right)
        else:
            out.append(x)
    return sign, out


def imag_unit_sign(e: ast.AST) -> Optional[int]:
    """Sign (±1) of the imaginary unit in a product such as `-2j * np.pi * x` or `1j * a * b`; None unless the product
    contains exactly one imaginary literal (other numeric literals contribute their sign; symbols count as positive)."""
    sign, fs = product_factors(e)
    n_imag = 0
    for f in fs:
        if isinstance(f, ast.Constant) and isinstance(f.value, complex):
            if f.value.real != 0 or f.value.imag == 0:
                return None
            n_imag += 1
            sign *= 1 if f.value.imag > 0 else -1
        elif isinstance(f, ast.Constant) and isinstance(f.value, (int, float)) and not isinstance(f.value, bool):
            if f.value == 0:
                return None
            sign *= 1 if f.value > 0 else -1
    return sign if n_imag == 1 else None


def if_chain(top: ast.If) -> List[Tuple[Optional[ast.AST], List[ast.stmt]]]:
    """[(test, body), …, (None, else-body)] of an if/elif/else chain."""
    chain = []
    cur = top
    while True:
        chain.append((cur.test, cur.body))
        if len(cur.orelse) == 1 and isinstance(cur.orelse[0], ast.If):
            cur = cur.orelse[0]
        else:
            chain.append((None, cur.orelse))
            break
    return chain


def eq_const(test: ast.AST, lhs: str):
    """Value c if `test` is `<lhs> == c` (either side) with a literal c, else Ellipsis."""
    if isinstance(test, ast.Compare) and len(test.ops) == 1 and isinstance(test.ops[0], ast.Eq):
        a, b = test.left, test.comparators[0]
        if norm(a) == lhs and isinstance(b, ast.Constant):
            return b.value
        if norm(b) == lhs and isinstance(a, ast.Constant):
            return a.value
    return ...


def index_domain(loop: ast.For) -> Tuple[Optional[str], List[str]]:
    """(index variable, [sequences whose every index the loop visits in order]) for the loop headers
    `for i in range(len(X))`, `range(X.shape[0])`, `for i, v in enumerate(X)`, `for i, (a, b) in enumerate(zip(A, B))`;
    (None, []) if the header is not of that kind."""
    it, tg = loop.iter, loop.target
    if isinstance(it, ast.Call) and call_name(it) == "range" and len(it.args) == 1 and isinstance(tg, ast.Name):
        a = it.args[0]
        m = pmatch(a, "len(X)", {"X"})
        if m and m[0][0] is a:
            return tg.id, [m[0][1]["X"]]
        m = pmatch(a, "X.shape[0]", {"X"})
        if m and m[0][0] is a:
            return tg.id, [m[0][1]["X"]]
        return tg.id, []
    if isinstance(it, ast.Call) and call_name(it) == "enumerate" and len(it.args) == 1 and isinstance(tg, ast.Tuple) and len(tg.elts) == 2 \
            and isinstance(tg.elts[0], ast.Name):
        inner = it.args[0]
        if isinstance(inner, ast.Call) and call_name(inner) == "zip":
            return tg.elts[0].id, [norm(x) for x in inner.args]
        return tg.elts[0].id, [norm(inner)]
    return None, []
