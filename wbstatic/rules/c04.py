"""C04 — k+G periodicity and gauge independence: the documented random_gauge option must be executable.

R04.1 every attribute read on the `random_gauge` path of Data_K (transitively through self.<property>/<method>) exists.
R04.2 every documented constructor option is stored under a name that is read somewhere (param → store → load).
R04.3 the gauge rotation acts only inside degenerate blocks of the eigenvector matrix that every formula uses.
"""
from __future__ import annotations

import ast
import re
from typing import Dict, List, Optional, Set, Tuple

from ..index import AnalysisError, ClassInfo, FunctionInfo, call_name, norm, norm1, parent_map, walk_no_nested
from .attrs import guarded_by_hasattr, self_loads
from .common import const_of, enclosing, fctx, in_body, is_name, method_calls, pmatch, stmts

from ..sem import Sem
from .groups import check_group_trace

LEVEL = "other"
EXPLANATION = (
    "Attribute-definedness over the class hierarchy (MRO of Data_K and its subclasses, stores via self.x=, setattr, "
    "class body, properties) along the call graph rooted at the `if self.random_gauge:` branch of Data_K.UU_K, plus a "
    "parameter→store→load chain check for the options documented in the class docstring. Decides that the documented "
    "gauge-test option can run at all (it could not: two attributes were never stored) and that the random unitary is "
    "applied to degenerate column blocks [ib1:ib2] of the eigenvector matrix only. Not decided: k+G periodicity and the "
    "numerical invariance of results under the gauge rotation.")

DK = "wannierberri/data_K/data_K.py"


def _reach_undefined(idx, cls: ClassInfo, start_nodes: List[ast.AST], start_fi: FunctionInfo):
    """Follow self.<attr> loads from `start_nodes`; recurse into properties/methods of the family. Returns
    (visited method names, [(fi, load node)] undefined)."""
    fam = list(idx.mro(cls))
    visited: Set[str] = set()
    undefined: List[Tuple[FunctionInfo, ast.Attribute]] = []
    work: List[Tuple[FunctionInfo, List[ast.AST]]] = [(start_fi, start_nodes)]
    n_loads = 0
    while work:
        fi, roots = work.pop()
        pm = parent_map(fi.node)
        selfname = fi.node.args.args[0].arg
        for root in roots:
            for n in walk_no_nested(root):
                if isinstance(n, ast.Attribute) and isinstance(n.ctx, ast.Load) and isinstance(n.value, ast.Name) \
                        and n.value.id == selfname:
                    n_loads += 1
                    if n.attr.startswith("__"):
                        continue
                    m = idx.find_method(cls, n.attr)
                    if m is not None:
                        if m.qualname not in visited and m.module.relpath == fi.module.relpath:
                            visited.add(m.qualname)
                            work.append((m, list(m.node.body)))
                        continue
                    if idx.attr_defined(cls, n.attr) is None and not guarded_by_hasattr(pm, n):
                        undefined.append((fi, n))
    return visited, undefined, n_loads


def _doc_params(cls: ClassInfo) -> List[str]:
    doc = ast.get_docstring(cls.node) or ""
    out = []
    in_params = False
    for line in doc.splitlines():
        if line.strip().lower().startswith("parameters"):
            in_params = True
            continue
        if in_params:
            m = re.match(r"^\s*([A-Za-z_][A-Za-z0-9_]*)\s*:", line)
            if m:
                out.append(m.group(1))
    return out


def run(ctx) -> None:
    idx = ctx.index
    cls = idx.cls(DK, "Data_K")
    uuk = cls.methods.get("UU_K")
    if uuk is None:
        raise AnalysisError("Data_K.UU_K vanished")

    # ---------------------------------------------------------------- R04.1
    r1 = ctx.rule("R04.1", "attributes read on the random_gauge path exist")
    branches = [s for s in stmts(uuk.node) if isinstance(s, ast.If) and "self.random_gauge" in norm(s.test)]
    if len(branches) != 1:
        raise AnalysisError(f"Data_K.UU_K: expected one `if self.random_gauge:` branch, found {len(branches)}")
    br = branches[0]
    r1.instance(f"{uuk.short}: if {norm1(br.test)}")
    visited, undefined, n_loads = _reach_undefined(idx, cls, list(br.body) + [br.test], uuk)
    r1.note(f"methods/properties reached from the branch: {sorted(visited)}; self-attribute loads examined: {n_loads}")
    if not undefined:
        r1.ok(f"all {n_loads} self.<attr> loads on the random_gauge path resolve (reached: {sorted(visited)})")
    for fi, n in undefined:
        pm = parent_map(fi.node)
        r1.violation(fi, enclosing(pm, n, ast.stmt),
                     f"`self.{n.attr}` is read on the random_gauge=True path but no class in the Data_K hierarchy ever "
                     f"stores it: the documented gauge-test option raises AttributeError", stmt=f"self.{n.attr}")
    if ctx.thorough:
        # repo-wide: never-stored attributes in every class (out of scope for C04's verdict)
        for c in idx.all_classes():
            if idx.has_dynamic_attrs(c):
                continue
            for m in c.methods.values():
                pm = None
                for n in self_loads(m):
                    if n.attr.startswith("__") or idx.attr_defined(c, n.attr) is not None:
                        continue
                    pm = pm or parent_map(m.node)
                    if guarded_by_hasattr(pm, n):
                        continue
                    if c is cls and any(n is u for _, u in undefined):
                        continue
                    r1.observe(f"{m.short}: self.{n.attr} is never stored in the hierarchy of {c.name}")

    # ---------------------------------------------------------------- R04.2
    r2 = ctx.rule("R04.2", "documented options are stored under a name that is read", min_instances=3)
    init = cls.methods.get("__init__")
    if init is None:
        raise AnalysisError("Data_K.__init__ vanished")
    documented = _doc_params(cls)
    if not documented:
        raise AnalysisError("Data_K docstring has no Parameters section any more")
    fam = idx.subclasses(cls)
    all_loads: Set[str] = set()
    for c in fam + list(idx.mro(cls)):
        for m in c.methods.values():
            for n in self_loads(m):
                all_loads.add(n.attr)
    cfg, du, pm = fctx(init)
    for p in documented:
        r2.instance(f"Data_K(…, {p}=…)")
        if p not in init.params:
            r2.violation(init, init.node, f"documented option `{p}` is not a parameter of Data_K.__init__",
                         stmt=f"parameter {p}")
            continue
        stores = []
        for s in stmts(init.node):
            if isinstance(s, ast.Assign) and len(s.targets) == 1 and isinstance(s.targets[0], ast.Attribute) \
                    and is_name(s.targets[0].value, "self") and p in {x.id for x in ast.walk(s.value) if isinstance(x, ast.Name)}:
                stores.append(s)
        if not stores:
            r2.violation(init, init.node, f"documented option `{p}` is never stored on the object: it has no effect",
                         stmt=f"parameter {p}")
            continue
        names = [s.targets[0].attr for s in stores]
        read = [nm for nm in names if nm in all_loads]
        r2.check(bool(read), f"`{p}` → self.{names} → read", init, stores[0],
                 f"option `{p}` is stored as self.{names[0]} which nothing in the Data_K hierarchy reads "
                 f"(the code reads a differently spelled attribute): the option is ignored or its reader fails")

    # ---------------------------------------------------------------- R04.3
    r3 = ctx.rule("R04.3", "the random unitary acts on degenerate column blocks of the eigenvectors only")
    r3.instance(f"{uuk.short}: gauge rotation")
    US = Sem(idx, uuk)
    rot = [s for s in ast.walk(br) if isinstance(s, ast.Assign) and isinstance(s.targets[0], ast.Subscript)
           and "unitary_group" in US.rnorm(s.value, US.cfg.node(s))]
    if len(rot) != 1:
        raise AnalysisError("Data_K.UU_K: the random rotation statement `_UU[ik,:,ib1:ib2] = … .dot(unitary_group.rvs(…))` not found")
    st = rot[0]
    tgt = st.targets[0]
    lhs, val = norm(tgt), US.resolve(st.value, US.cfg.node(st))
    okshape = isinstance(val, ast.Call) and isinstance(val.func, ast.Attribute) and val.func.attr in ("dot", "__matmul__") \
        and norm(val.func.value) == lhs
    r3.check(okshape or (isinstance(val, ast.BinOp) and isinstance(val.op, ast.MatMult) and norm(val.left) == lhs),
             "U[ik,:,b1:b2] ← U[ik,:,b1:b2] · Q (right-multiplication of the same block)", uuk, st,
             f"the rotated block `{lhs}` is not replaced by itself times a unitary")
    sl = tgt.slice.elts if isinstance(tgt.slice, ast.Tuple) else [tgt.slice]
    blk = sl[-1] if sl else None
    okblk = isinstance(blk, ast.Slice) and blk.lower is not None and blk.upper is not None
    size_args = [a for c in ast.walk(val) if isinstance(c, ast.Call) and call_name(c).endswith("unitary_group.rvs") for a in c.args]
    oksize = okblk and size_args and norm(size_args[0]).replace(" ", "") == f"{norm(blk.upper)}-{norm(blk.lower)}"
    r3.check(bool(oksize), "the unitary has the size of the block it multiplies", uuk, st,
             f"unitary_group.rvs({norm1(size_args[0]) if size_args else ''}) does not have the size of block "
             f"`{norm1(blk) if blk is not None else None}`")
    # block bounds come from the degenerate-group list
    loops = [f for f in ast.walk(br) if isinstance(f, ast.For) and in_body(f.body, st)]
    src = " ".join(norm(f.iter) for f in loops)
    r3.check("self.degen" in src, "blocks iterate over self.degen (groups with gap ≤ threshold, size > 1)", uuk, loops[0] if loops else st,
             f"rotation blocks are taken from `{src}`, not from the degenerate groups")
    # the groups are degenerate at ONE k-point: the block found in self.degen[ik] may only be rotated in the eigenvectors of that k-point
    from .common import index_domain
    kix = sl[0] if len(sl) == 3 else None
    per_k = None
    for lp_ in loops:
        iv_, seqs_ = index_domain(lp_)
        if iv_ is not None and any(q_ == "self.degen" for q_ in seqs_):
            elem_ = lp_.target.elts[1] if isinstance(lp_.target, ast.Tuple) and len(lp_.target.elts) == 2 else None
            inner_ok = elem_ is not None and any(l2 is not lp_ and norm(l2.iter) == norm(elem_) for l2 in loops)
            per_k = (iv_, inner_ok)
    if kix is not None and isinstance(kix, ast.Slice):
        r3.violation(uuk, st, f"`{lhs}` rotates the block in the eigenvectors of ALL k-points, but the block is degenerate only at the k-point whose entry of "
                     f"self.degen it came from: at the other k-points non-degenerate bands are mixed and every gauge-covariant quantity changes")
    elif per_k is not None and kix is not None:
        r3.check(norm(kix) == per_k[0] and per_k[1], "the block of self.degen[ik] is rotated in the eigenvectors of k-point ik only", uuk, st,
                 f"`{lhs}`: the k-index `{norm1(kix)}` of the rotated eigenvectors is not the position `{per_k[0]}` of the group list in self.degen "
                 f"(or the blocks do not come from that k-point's list)")
    else:
        r3.expect(False, "", uuk, st, f"Data_K.UU_K: cannot relate the k-index of `{lhs}` to the position in self.degen the block came from")
    deg = cls.methods.get("degen")
    if deg is None:
        raise AnalysisError("Data_K.degen vanished")
    from .c15 import _border_signature
    sig = _border_signature(deg, idx)
    cmpn = sig.get("cmp_node")
    thr_ok = sig.get("thr") == "self.degen_thresh_random_gauge" and sig["cmp"] == "Gt"
    multi = [c_ for c_ in ast.walk(deg.node) if isinstance(c_, ast.Compare) and len(c_.ops) == 1 and isinstance(c_.ops[0], ast.Gt)
             and isinstance(c_.left, ast.BinOp) and isinstance(c_.left.op, ast.Sub) and const_of(c_.comparators[0]) == 1]
    r3.check(thr_ok and bool(sig["plus1"]) and bool(sig["start0"]) and bool(sig["endlen"]) and bool(sig["pairs"]) and len(multi) == 1,
             "degenerate groups: borders where the gap exceeds the threshold; singletons skipped", deg, deg.node.body[-1],
             "Data_K.degen no longer splits at gaps larger than degen_thresh_random_gauge / keeps only multiplets",
             stmt="degen body")
    ret = [s for s in stmts(uuk.node) if isinstance(s, ast.Return)]
    r3.check(len(ret) == 1 and norm(ret[0].value) == norm(tgt.value), "the rotated matrix is what UU_K returns", uuk,
             ret[0] if ret else uuk.node, f"UU_K returns `{norm1(ret[0].value) if ret else None}`, not the rotated `{norm1(tgt.value)}`")
    rotm = cls.methods.get("_rotate")
    okrot = False
    if rotm is not None:
        RS = Sem(idx, rotm)
        rr = [s_ for s_ in stmts(rotm.node) if isinstance(s_, ast.Return) and s_.value is not None]
        if len(rr) == 1:
            v_ = RS.resolve(rr[0].value, RS.cfg.node(rr[0]))
            if isinstance(v_, ast.Call) and call_name(v_).endswith("einsum") and len(v_.args) == 4 and isinstance(v_.args[0], ast.Constant):
                spec = str(v_.args[0].value).replace(" ", "")
                try:
                    ins, out_ = spec.split("->")
                    o1, o2, o3 = [x.replace("...", "") for x in ins.split(",")]
                    oo = out_.replace("...", "")
                    okspec = len(o1) == len(o3) == 3 and len(o2) >= 3 and o1[0] == o2[0] == o3[0] == oo[0] and o1[1] == o2[1] and o3[1] == o2[2] \
                        and oo[1] == o1[2] and oo[2] == o3[2]
                except Exception:
                    okspec = False
                okrot = okspec and norm(v_.args[1]) in ("self.UU_K.conj()", "np.conj(self.UU_K)", "self.UU_K.conjugate()") and norm(v_.args[3]) == "self.UU_K" \
                    and norm(v_.args[2]) == rotm.params[1]
    r3.check(okrot,
             "_rotate uses U† X U with the same (rotated) UU_K", rotm or uuk, (rotm or uuk).node,
             "Data_K._rotate does not sandwich with UU_K† … UU_K", stmt="_rotate body")

    # ---------------------------------------------------------------- R04.4
    r4 = ctx.rule("R04.4", "traces are taken over whole degenerate band groups (gauge-invariant subspaces)", min_instances=3)
    st = idx.function("wannierberri/calculators/static.py", "StaticCalculator.__call__")
    tb = idx.function("wannierberri/calculators/tabulate.py", "Tabulator.__call__")
    dy = idx.function("wannierberri/calculators/dynamic.py", "DynamicCalculator.__call__")
    for f in (st, tb):
        r4.instance(f.short)
        check_group_trace(r4, idx, f, allow_sea=True)
        gcall = [c for c in ast.walk(f.node) if isinstance(c, ast.Call) and isinstance(c.func, ast.Attribute)
                 and c.func.attr in ("get_bands_in_range_groups", "weights_all_band_groups")]
        r4.expect(len(gcall) >= 1, f"{f.qualname}: grouping call located", f, f.node, f"{f.qualname}: the call that groups the bands was not found")
        for c in gcall:
            kw = {k.arg: norm(k.value) for k in c.keywords}
            r4.check(kw.get("degen_thresh") == "self.degen_thresh" and kw.get("degen_Kramers") == "self.degen_Kramers", f"{f.qualname}: groups come from the "
                     f"calculator's degeneracy settings", f, c, f"{f.qualname} does not group bands with its degen_thresh/degen_Kramers", stmt="group settings")
    r4.instance(dy.short)
    DS = Sem(idx, dy)
    okdyn = False
    tl = [c_ for c_ in method_calls(dy.node, "trace_ln") if len(c_.args) == 3]
    if len(tl) == 1:
        comp = enclosing(DS.pm, tl[0], (ast.ListComp, ast.GeneratorExp))
        if comp is not None and comp.elt is tl[0]:
            at_ = DS.cfg.node(enclosing(DS.pm, comp, ast.stmt))
            elt = DS.comp_element(comp, at_)
            m_ = pmatch(elt, "F_.trace_ln(K_, np.arange(*A_), np.arange(*B_))", {"F_", "K_", "A_", "B_"})
            if m_ and m_[0][0] is elt:
                A_, B_ = m_[0][1]["A_"], m_[0][1]["B_"]
                for pc in ast.walk(dy.node):
                    if isinstance(pc, ast.ListComp) and len(pc.generators) == 2 and isinstance(pc.elt, ast.Tuple) and len(pc.elt.elts) >= 2:
                        g1, g2 = pc.generators
                        if all(isinstance(g_.iter, ast.Call) and isinstance(g_.iter.func, ast.Attribute) and g_.iter.func.attr == "items" and isinstance(g_.target, ast.Tuple) for g_ in (g1, g2)) \
                                and norm(g1.iter) == norm(g2.iter) and norm(g1.target.elts[0]) == A_ and norm(g2.target.elts[0]) == B_ \
                                and [norm(x) for x in pc.elt.elts[:2]] == [A_, B_]:
                            dsrc = DS.resolve(g1.iter.func.value, DS.cfg.node(enclosing(DS.pm, pc, ast.stmt)))
                            okdyn = isinstance(dsrc, ast.Call) and call_name(dsrc).endswith("get_bands_in_range_groups_ik") and \
                                {k.arg: norm(k.value) for k in dsrc.keywords}.get("degen_thresh") == "self.degen_thresh"
    r4.check(okdyn,
             "dynamic calculators sum matrix elements over whole group pairs", dy, dy.node,
             "DynamicCalculator no longer sums matrix elements over whole degenerate groups", stmt="trace_ln over groups")
    # the Fermi-sea block (0, n) added below the scanned window must not cut a degenerate group either
    from .groups import check_completion_blocks
    gk_ = idx.function("wannierberri/data_K/data_K.py", "Data_K.get_bands_in_range_groups_ik")
    r4.instance(f"{gk_.short}: sea block")
    check_completion_blocks(r4, idx, gk_, want=("sea",))
    # the random-gauge rotation may only mix bands that every calculator treats as one group: its default threshold must not
    # exceed the calculators' default degeneracy threshold
    dki = idx.function("wannierberri/data_K/data_K.py", "Data_K.__init__")
    cci = idx.function("wannierberri/calculators/calculator.py", "Calculator.__init__")

    def default_of(fn, pname):
        a_ = fn.node.args
        names_ = [x.arg for x in a_.posonlyargs + a_.args]
        if pname in names_:
            i_ = names_.index(pname) - (len(names_) - len(a_.defaults))
            return const_of(a_.defaults[i_]) if i_ >= 0 else None
        for x, d_ in zip(a_.kwonlyargs, a_.kw_defaults):
            if x.arg == pname and d_ is not None:
                return const_of(d_)
        return None
    t_rg, t_calc = default_of(dki, "degen_thresh_random_gauge"), default_of(cci, "degen_thresh")
    r4.expect(isinstance(t_rg, (int, float)) and isinstance(t_calc, (int, float)), "degeneracy threshold defaults located", dki, dki.node,
              f"defaults of degen_thresh_random_gauge / degen_thresh are not numeric literals ({t_rg!r}, {t_calc!r})")
    if isinstance(t_rg, (int, float)) and isinstance(t_calc, (int, float)):
        r4.instance(f"defaults: degen_thresh_random_gauge={t_rg}, Calculator degen_thresh={t_calc}")
        r4.check(t_rg <= t_calc, "random-gauge threshold ≤ calculators' grouping threshold (defaults)", dki, dki.node,
                 f"by default the random gauge mixes bands closer than {t_rg} but the calculators only treat bands closer than {t_calc} as one "
                 f"group: pairs split by between {t_calc} and {t_rg} are rotated into each other yet traced separately, so results depend "
                 f"on the arbitrary rotation", stmt=f"degen_thresh_random_gauge={t_rg}")


from ..selftest import V  # noqa: E402

SELFTEST = [
    V("degenerate block rotated at every k-point (seeded C04-m5)", DK, "self._UU[ik, :, ib1:ib2] = self._UU[ik, :, ib1:ib2].dot(unitary_group.rvs(ib2 - ib1))",
      "self._UU[:, :, ib1:ib2] = self._UU[:, :, ib1:ib2].dot(unitary_group.rvs(ib2 - ib1))", "fire", "R04.3"),
    V("random-gauge threshold looser than the calculators' (seeded C04-m4)", "wannierberri/data_K/data_K.py", "degen_thresh_random_gauge=1e-4,", "degen_thresh_random_gauge=1e-3,", "fire", "R04.4"),
    V("sea block clamped at the end of the first group (seeded C04-m3)", "wannierberri/data_K/data_K.py", "bandmax = min(bandmax, bands_in_range[0][0])", "bandmax = min(bandmax, bands_in_range[0][1])", "fire", "R04.4"),
    V("loop over a never-defined attribute (original defect)", DK, "for ik, deg in enumerate(self.degen):",
      "for ik, deg in enumerate(self.true):", "fire", "R04.1"),
    V("threshold read under a different spelling (original defect)", DK,
      "self.degen_thresh_random_gauge = degen_thresh_random_gauge", "self.degen_threshold_random_gauge = degen_thresh_random_gauge",
      "fire", "R04.1"),
    V("option stored under a name nobody reads", DK, "        self.random_gauge = random_gauge\n",
      "        self.use_random_gauge = random_gauge\n", "fire", "R04.2"),
    V("unitary of the wrong size", DK, "unitary_group.rvs(ib2 - ib1)", "unitary_group.rvs(ib2 - ib1 + 1)", "fire", "R04.3"),
    V("rotation mixes a non-degenerate neighbour", DK,
      "self._UU[ik, :, ib1:ib2] = self._UU[ik, :, ib1:ib2].dot(unitary_group.rvs(ib2 - ib1))",
      "self._UU[ik, :, ib1:ib2 + 1] = self._UU[ik, :, ib1:ib2 + 1].dot(unitary_group.rvs(ib2 - ib1))", "fire", "R04.3"),
    V("partial trace over the selected members of a group (seeded C04-m1, simplified)", "wannierberri/calculators/static.py",
      "                    inn = np.arange(n[0], n[1])\n                    out = np.concatenate((np.arange(0, n[0]), np.arange(n[1], NB)))\n                    values[ik][n] = formula.trace(ik, inn, out)",
      "                    inn = np.array([b for b in range(n[0], n[1]) if self.select_bands is None or b in self.select_bands])\n                    out = np.array([b for b in range(NB) if b not in inn])\n                    values[ik][n] = formula.trace(ik, inn, out)",
      "fire", "R04.4"),
    V("neutral: matmul operator", DK,
      "self._UU[ik, :, ib1:ib2] = self._UU[ik, :, ib1:ib2].dot(unitary_group.rvs(ib2 - ib1))",
      "self._UU[ik, :, ib1:ib2] = self._UU[ik, :, ib1:ib2] @ unitary_group.rvs(ib2 - ib1)", "silent"),
    V("neutral: unused counters removed", DK, "                    cnt += 1\n                    s += ib2 - ib1\n", "", "silent"),
]
