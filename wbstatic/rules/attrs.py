"""Attribute definedness (shared by C04 and C19) and class-level literal folding."""
from __future__ import annotations

import ast
from typing import Dict, List, Optional, Set, Tuple

from ..index import AnalysisError, ClassInfo, FunctionInfo, Index, norm1, walk_no_nested


def self_loads(fi: FunctionInfo) -> List[ast.Attribute]:
    """`self.x` loads in a method (not descending into nested defs)."""
    args = fi.node.args.posonlyargs + fi.node.args.args
    if not args:
        return []
    selfname = args[0].arg
    out = []
    for n in walk_no_nested(fi.node):
        if isinstance(n, ast.Attribute) and isinstance(n.ctx, ast.Load) and isinstance(n.value, ast.Name) \
                and n.value.id == selfname:
            out.append(n)
    return out


def guarded_by_hasattr(pm: Dict[ast.AST, ast.AST], n: ast.Attribute) -> bool:
    """True if the load sits under `if hasattr(self, 'x')` / `getattr` default / try-except AttributeError."""
    x = n
    while x in pm:
        p = pm[x]
        if isinstance(p, ast.If):
            t = ast.unparse(p.test)
            if f"hasattr(self, '{n.attr}')" in t and any(x is s or _contains(s, x) for s in p.body):
                return True
        if isinstance(p, ast.IfExp):
            t = ast.unparse(p.test)
            if f"hasattr(self, '{n.attr}')" in t:
                return True
        if isinstance(p, ast.Try):
            for h in p.handlers:
                if h.type is not None and "AttributeError" in ast.unparse(h.type) and any(_contains(s, x) or s is x for s in p.body):
                    return True
        if isinstance(p, ast.BoolOp) and isinstance(p.op, ast.And):
            t = ast.unparse(p.values[0])
            if f"hasattr(self, '{n.attr}')" in t:
                return True
        x = p
    return False


def _contains(root: ast.AST, n: ast.AST) -> bool:
    return any(x is n for x in ast.walk(root))


def undefined_self_attrs(idx: Index, cls: ClassInfo, fi: FunctionInfo, pm) -> List[Tuple[ast.Attribute, str]]:
    """(load, reason) for every `self.x` in `fi` that no class in the family of `cls` ever defines."""
    out = []
    dyn = idx.has_dynamic_attrs(cls)
    for n in self_loads(fi):
        if n.attr.startswith("__") and n.attr.endswith("__"):
            continue
        where = idx.attr_defined(cls, n.attr)
        if where is not None:
            continue
        if guarded_by_hasattr(pm, n):
            continue
        out.append((n, "dynamic attributes exist: " + "; ".join(dyn[:2]) if dyn else "never stored"))
    return out


def fold_class_list(idx: Index, cls: ClassInfo, name: str) -> Optional[List[str]]:
    """Value of a class-level list/tuple-of-strings attribute, looked up through the MRO."""
    for k in idx.mro(cls):
        if name in k.class_attrs:
            return _fold(idx, k, k.class_attrs[name])
    return None


def _fold(idx: Index, cls: ClassInfo, e: ast.AST) -> List[str]:
    if isinstance(e, (ast.List, ast.Tuple)):
        out = []
        for x in e.elts:
            if isinstance(x, ast.Constant) and isinstance(x.value, str):
                out.append(x.value)
            else:
                raise AnalysisError(f"{cls.name}: non-literal element in class list: {norm1(x)}")
        return out
    if isinstance(e, ast.BinOp) and isinstance(e.op, ast.Add):
        return _fold(idx, cls, e.left) + _fold(idx, cls, e.right)
    if isinstance(e, ast.Attribute) and isinstance(e.value, ast.Name):
        base = idx.resolve_name(cls.module, e.value.id)
        if isinstance(base, ClassInfo):
            r = fold_class_list(idx, base, e.attr)
            if r is not None:
                return r
    if isinstance(e, ast.Name) and e.id in cls.class_attrs:
        return _fold(idx, cls, cls.class_attrs[e.id])
    raise AnalysisError(f"{cls.name}: cannot fold class-level list expression {norm1(e)}")


def class_str_attr(idx: Index, cls: ClassInfo, name: str) -> Optional[str]:
    for k in idx.mro(cls):
        if name in k.class_attrs:
            v = k.class_attrs[name]
            if isinstance(v, ast.Constant) and isinstance(v.value, str):
                return v.value
            return None
    return None
