"""C15 — degenerate multiplets are never split (structural clauses).

R15.1 all "group a sorted array by gaps" sites use one definition of a group (siblings agree).
R15.2 window selection removes / adds whole multiplets cut by a window edge (any multiplet size).
R15.3 tabulation: every band of a group receives the group's averaged value.
R15.4 wannierise: frozen window excludes, outer window includes cut multiplets.
"""
from __future__ import annotations

import ast
from typing import Dict, List, Optional, Tuple

from ..index import AnalysisError, call_name, norm, norm1, names_in
from .common import calls, enclosing, enclosing_all, fctx, in_body, is_name, kwarg, method_calls, stmts, store_targets
from .groups import check_band_values

LEVEL = "other"
EXPLANATION = (
    "Sibling cross-check of the four border computations (get_borders, find_degen, Data_K.degen, k_to_shells): "
    "difference form, strict `>` against the threshold, the +1 offset, both sentinels and the pairing zip(b, b[1:]) are "
    "extracted from the AST and must agree; Kramers filtering keeps even borders. For select_window_degen the exclude arm "
    "at each window edge must clear the membership of the whole cut multiplet (a slice store, or stores inside an inner "
    "loop that walks while the gap is below the threshold) — a single scalar store followed by break handles doublets "
    "only — and the include arm must keep walking. Tabulator.__call__ must write per-band values only from the per-group "
    "dictionary (trace over [n0,n1) divided by n1−n0). Not decided: behaviour for gaps numerically equal to the threshold.")

TET = "wannierberri/grid/tetrahedron.py"
UT = "wannierberri/utility.py"
DK = "wannierberri/data_K/data_K.py"
BK = "wannierberri/w90files/bkvectors.py"
TAB = "wannierberri/calculators/tabulate.py"
WAN = "wannierberri/wannierisation/wannierise.py"


GAP_EXTRACT = ("np.where", "numpy.where", "np.nonzero", "numpy.nonzero", "np.flatnonzero", "numpy.flatnonzero", "np.argwhere", "numpy.argwhere")


def _gap_array(e: ast.AST) -> Optional[str]:
    """X when e is X[1:] − X[:-1] or np.diff(X)"""
    while isinstance(e, ast.Call) and call_name(e) in ("np.asarray", "np.array") and e.args:
        e = e.args[0]
    if isinstance(e, ast.BinOp) and isinstance(e.op, ast.Sub) and isinstance(e.left, ast.Subscript) and isinstance(e.right, ast.Subscript) \
            and norm(e.left.slice) == "1:" and norm(e.right.slice) == ":-1" and norm(e.left.value) == norm(e.right.value):
        return norm(e.left.value)
    if isinstance(e, ast.Call) and call_name(e) in ("np.diff", "numpy.diff") and len(e.args) == 1 and not e.keywords:
        return norm(e.args[0])
    return None


def _starts_form(e: ast.AST) -> Optional[Tuple[ast.Compare, str, bool]]:
    """(comparison, gap array, plus1) when the de-referenced `e` is positions(gap(X) <cmp> thr) [+ 1]"""
    while isinstance(e, ast.Call) and call_name(e) in ("list", "tuple", "np.array", "np.asarray") and e.args:
        e = e.args[0]
    plus1 = False
    if isinstance(e, ast.BinOp) and isinstance(e.op, ast.Add):
        if isinstance(e.right, ast.Constant) and e.right.value == 1:
            e, plus1 = e.left, True
        elif isinstance(e.left, ast.Constant) and e.left.value == 1:
            e, plus1 = e.right, True
    # positions: np.where(c)[0] | np.nonzero(c)[0] | np.flatnonzero(c) | np.argwhere(c)[:, 0] / .ravel() / .flatten()
    if isinstance(e, ast.Call) and isinstance(e.func, ast.Attribute) and e.func.attr in ("ravel", "flatten") and not e.args:
        e = e.func.value
    if isinstance(e, ast.Subscript) and norm(e.slice) in ("0", ":, 0"):
        e = e.value
    if not (isinstance(e, ast.Call) and call_name(e) in GAP_EXTRACT and len(e.args) == 1):
        return None
    c = e.args[0]
    if not (isinstance(c, ast.Compare) and len(c.ops) == 1):
        return None
    arr = _gap_array(c.left)
    if arr is None:
        return None
    return c, arr, plus1


def _len_of(e: ast.AST) -> Optional[str]:
    if isinstance(e, ast.Call) and call_name(e) == "len" and len(e.args) == 1:
        return norm(e.args[0])
    if isinstance(e, ast.Attribute) and e.attr == "size":
        return norm(e.value)
    if isinstance(e, ast.Subscript) and isinstance(e.value, ast.Attribute) and e.value.attr == "shape" and norm(e.slice) == "0":
        return norm(e.value.value)
    return None


def _border_signature(f, idx=None) -> Dict[str, object]:
    """How a function turns a sorted array into groups: the comparison on the gaps, the +1 offset, the 0 / len(X) sentinels, the
    pairing of consecutive borders and an optional `even borders only` filter — read from the data flow into the pairing site
    (zip(b, b[1:]) / zip(b[:-1], b[1:]) / pairwise(b) / np.split(X, starts)), whatever the spelling of the intermediate steps."""
    from ..sem import Sem, deref, seq_segments, comp_binding
    S = Sem(idx, f)
    sig: Dict[str, object] = {"cmp": None, "plus1": False, "start0": False, "endlen": False, "pairs": False, "array": None,
                              "filter": None, "filter_cond": None, "thr": None}
    sites = []   # (borders expression | None, split call | None, node)
    for n in ast.walk(f.node):
        if not isinstance(n, ast.Call):
            continue
        cn = call_name(n)
        if cn == "zip" and len(n.args) == 2 and isinstance(n.args[1], ast.Subscript) and norm(n.args[1].slice) == "1:":
            a0, a1 = n.args[0], n.args[1].value
            if norm(a0) == norm(a1):
                sites.append((a0, None, n))
            elif isinstance(a0, ast.Subscript) and norm(a0.slice) == ":-1" and norm(a0.value) == norm(a1):
                sites.append((a0.value, None, n))
        elif cn in ("pairwise", "itertools.pairwise") and len(n.args) == 1:
            sites.append((n.args[0], None, n))
        elif cn in ("np.split", "numpy.split") and len(n.args) == 2:
            sites.append((None, n, n))
    # block-closing loop:  start = 0; for stop in STOPS: [if G and skip(stop): continue]; out.append([start, stop]); start = stop
    for lp in [n for n in ast.walk(f.node) if isinstance(n, ast.For) and isinstance(n.target, ast.Name) and not n.orelse]:
        t = lp.target.id
        body = list(lp.body)
        skip = None
        if body and isinstance(body[0], ast.If) and len(body[0].body) == 1 and isinstance(body[0].body[0], ast.Continue) and not body[0].orelse:
            skip, body = body[0].test, body[1:]
        if len(body) != 2:
            continue
        ap, adv = body
        if not (isinstance(ap, ast.Expr) and isinstance(ap.value, ast.Call) and isinstance(ap.value.func, ast.Attribute) and ap.value.func.attr == "append"
                and len(ap.value.args) == 1 and isinstance(ap.value.args[0], (ast.List, ast.Tuple)) and len(ap.value.args[0].elts) == 2):
            continue
        e0, e1 = ap.value.args[0].elts
        if not (isinstance(e0, ast.Name) and isinstance(e1, ast.Name) and e1.id == t and isinstance(adv, ast.Assign) and len(adv.targets) == 1
                and norm(adv.targets[0]) == e0.id and norm(adv.value) == t):
            continue
        init = [d for d in S.du.reaching(e0.id, S.cfg.node(lp)) if d.stmt is not adv]
        if len(init) != 1 or init[0].value is None:
            continue
        extra = {"init": init[0].value, "skip": skip, "loop": lp}
        sites.append((lp.iter, None, lp, extra))
    for site in sites:
        b, split, node = site[:3]
        extra = site[3] if len(site) > 3 else None
        at = S.du.node_of_expr(node) if extra is None else S.cfg.node(node)
        segs = None
        if extra is not None:
            d_ = deref(S, b, at=at)
            segs = [("el", extra["init"], at)] + (seq_segments(S, d_, at) or [])
            if extra["skip"] is not None:
                sk = extra["skip"]
                gd, cd = [], sk
                if isinstance(sk, ast.BoolOp) and isinstance(sk.op, ast.And) and len(sk.values) == 2:
                    gd, cd = [(norm(sk.values[0]), True)], sk.values[1]
                tv = t_ = node.target.id
                cdn = norm(cd)
                keep = "_ % 2 == 0" if cdn in (f"{tv} % 2 != 0", f"{tv} % 2 == 1", f"{tv} % 2", f"{tv} & 1", f"{tv} % 2 > 0") else f"not ({cdn.replace(tv, '_')})"
                sig["filter"] = sk
                sig["filter_cond"] = keep
                sig["filter_guard"] = gd
        elif split is not None:
            segs = [("el", ast.Constant(value=0), at), ("seq", split.args[1], at),
                    ("el", ast.Call(func=ast.Name(id="len", ctx=ast.Load()), args=[split.args[0]], keywords=[]), at)]
            b_deref = None
        else:
            # an optional filter `b = [i for i in b if cond(i)]` (conditional or not) between the construction and the pairing
            flt = None
            cur, cur_at = b, at
            for _ in range(3):
                if isinstance(cur, ast.Name) and comp_binding(S, cur) is None:
                    ds = S.du.reaching(cur.id, cur_at)
                    fd = [d for d in ds if d.value is not None and isinstance(d.value, (ast.ListComp, ast.GeneratorExp)) and len(d.value.generators) == 1
                          and d.value.generators[0].ifs and isinstance(d.value.elt, ast.Name) and isinstance(d.value.generators[0].target, ast.Name)
                          and d.value.elt.id == d.value.generators[0].target.id and isinstance(d.value.generators[0].iter, ast.Name)]
                    if fd and len(ds) <= 2:
                        flt = fd[0]
                        others = [d for d in ds if d is not fd[0]]
                        inner = fd[0].value.generators[0].iter
                        if others and not (inner.id == cur.id and S.du.reaching(inner.id, fd[0].node) == others):
                            break
                        cur, cur_at = inner, fd[0].node
                        continue
                break
            if flt is not None:
                sig["filter"] = flt.value
                sig["filter_cond"] = norm(flt.value.generators[0].ifs[0]).replace(flt.value.generators[0].target.id, "_")
                sig["filter_guard"] = [(t, p) for t, p, _ in S.conditions(flt.stmt, resolve=False)]
            if isinstance(cur, ast.Name) and comp_binding(S, cur) is None and cur.id in S._mutated:
                segs = seq_segments(S, cur, cur_at)
            else:
                d_ = deref(S, cur, at=cur_at)
                segs = seq_segments(S, d_, cur_at)
        if not segs:
            continue
        in_f = {id(x) for x in ast.walk(f.node)}

        def dd(seg):
            return deref(S, seg[1], at=seg[2]) if id(seg[1]) in in_f else seg[1]
        st, k_st = None, None
        for k_, sg_ in enumerate(segs):
            if sg_[0] == "seq":
                st = _starts_form(dd(sg_))
                if st is not None:
                    k_st = k_
                    break
        if st is None:
            continue
        c, arr, plus1 = st
        first = segs[0] if k_st == 1 else None
        last = segs[-1] if k_st == len(segs) - 2 else None
        f_d = dd(first) if first is not None else None
        l_d = dd(last) if last is not None else None
        sig["pairs"] = True
        sig["cmp"] = type(c.ops[0]).__name__
        sig["array"] = arr
        sig["thr"] = norm(c.comparators[0])
        sig["plus1"] = plus1
        sig["start0"] = first is not None and first[0] == "el" and isinstance(f_d, ast.Constant) and f_d.value == 0 and not isinstance(f_d.value, bool)
        ln = _len_of(l_d) if last is not None and last[0] == "el" else None
        sig["endlen"] = ln if ln is not None else False
        # the original comparison node (for reporting)
        for n in ast.walk(f.node):
            if isinstance(n, ast.Compare) and len(n.ops) == 1 and type(n.ops[0]) is type(c.ops[0]) and norm(n.comparators[0]) == norm(c.comparators[0]):
                sig["cmp_node"] = n
        sig["site"] = node
        break
    return sig


def _label_form(r2, S, f, Ep, thr_p, inc_p, mask_store, cond_inc) -> bool:
    """Loop-free window selection: bands are labelled by multiplet (label = [0] ++ cumsum(gap ≥ thresh)) and the mask is
    changed for `label == label[edge band]`.  Returns False when the function is not of this form."""
    from ..sem import seq_segments
    cfg = S.cfg

    def tie_vector(e: ast.AST, at) -> Optional[Tuple[ast.AST, bool]]:
        """(comparison node, negated?) when e resolves to gap(E) < thresh (negated False) or gap(E) >= thresh / ~(…<…) (negated True)"""
        e = S.resolve(e, at)
        neg = False
        while True:
            if isinstance(e, ast.UnaryOp) and isinstance(e.op, (ast.Invert, ast.Not)):
                e, neg = e.operand, not neg
            elif isinstance(e, ast.Call) and call_name(e) in ("np.logical_not", "numpy.logical_not", "np.invert") and len(e.args) == 1:
                e, neg = e.args[0], not neg
            elif isinstance(e, ast.Compare) and len(e.ops) == 1 and isinstance(e.ops[0], ast.Eq) and norm(e.comparators[0]) == "False":
                e, neg = e.left, not neg
            else:
                break
        if not (isinstance(e, ast.Compare) and len(e.ops) == 1):
            return None
        l, r_, op = e.left, e.comparators[0], e.ops[0]
        if norm(l) == thr_p:
            l, r_ = r_, l
            op = {ast.Gt: ast.Lt, ast.GtE: ast.LtE, ast.Lt: ast.Gt, ast.LtE: ast.GtE}.get(type(op), type(op))()
        if norm(r_) != thr_p:
            return None
        if isinstance(l, ast.Call) and call_name(l) in ("abs", "np.abs") and l.args:
            l = l.args[0]
        if _gap_array(l) != Ep:
            return None
        if isinstance(op, ast.Lt):
            return e, neg, "<"
        if isinstance(op, ast.GtE):
            return e, not neg, "<"
        if isinstance(op, ast.LtE):
            return e, neg, "<="
        if isinstance(op, ast.Gt):
            return e, not neg, "<="
        return None

    labels = {}
    for st in stmts(f.node):
        if not (isinstance(st, ast.Assign) and len(st.targets) == 1 and isinstance(st.targets[0], ast.Name)):
            continue
        at = cfg.node(st)
        segs = seq_segments(S, st.value, at)
        if not segs or len(segs) != 2 or segs[0][0] != "el" or segs[1][0] != "seq":
            continue
        first = S.resolve(segs[0][1], at)
        cs = S.resolve(segs[1][1], at)
        if not (isinstance(cs, ast.Call) and call_name(cs) in ("np.cumsum", "numpy.cumsum") and len(cs.args) == 1):
            continue
        tv = tie_vector(cs.args[0], at)
        if tv is None:
            continue
        labels[st.targets[0].id] = (st, first, tv)
    if not labels:
        return False
    for nm, (st, first, (cmpn, neg, op)) in labels.items():
        r2.instance(f"{f.short}: multiplet labels `{norm1(st, 90)}`")
        r2.check(neg is True, "the label increases at every gap ≥ thresh (cumulative count of the borders)", f, st,
                 f"`{norm1(st, 90)}`: the label counts the tied neighbours, not the borders: bands of one multiplet get different labels")
        r2.check(isinstance(first, ast.Constant) and first.value == 0, "the first band carries label 0 (labels are aligned with the bands)", f, st,
                 f"`{norm1(st, 90)}`: the label array is not [0] followed by the cumulative border count")
    for pol in (True, False):
        def mstore(st):
            if isinstance(st, ast.Assign) and len(st.targets) == 1 and isinstance(st.targets[0], ast.Subscript) and isinstance(st.value, ast.Constant) \
                    and isinstance(st.value.value, bool):
                return st.value.value
            return None
        mine = [x for x in stmts(f.node) if mstore(x) is pol and cond_inc(S.conditions(x)) is pol]
        r2.instance(f"{f.short}: label stores under include_degen={pol}: {len(mine)}")
        ok = len(mine) >= 2
        for x in mine:
            # the selection of the store must be `label[…] == label[edge]`
            sel = [c for c in ast.walk(x.targets[0]) if isinstance(c, ast.Compare) and len(c.ops) == 1 and isinstance(c.ops[0], ast.Eq)]
            good = False
            for c in sel:
                a, b = c.left, c.comparators[0]
                for u, v in ((a, b), (b, a)):
                    ub = u.value if isinstance(u, ast.Subscript) else u
                    if isinstance(ub, ast.Name) and ub.id in labels and isinstance(v, ast.Subscript) and isinstance(v.value, ast.Name) and v.value.id == ub.id \
                            and not isinstance(v.slice, ast.Slice):
                        good = True
            ok = ok and good
        r2.check(ok, f"include_degen={pol}: the mask is {'set' if pol else 'cleared'} for all bands carrying the label of the edge band (both edges)", f,
                 mine[0] if mine else f.node,
                 f"include_degen={pol}: the window edges do not {'add' if pol else 'remove'} the bands selected by `label == label[edge band]` on both edges: "
                 f"a multiplet cut by the window is split")
    return True


def run(ctx) -> None:
    idx = ctx.index

    # ---------------------------------------------------------------- R15.1
    r1 = ctx.rule("R15.1", "one definition of a degenerate group across all border computations", min_instances=4)
    sites = [idx.function(TET, "get_borders"), idx.function(UT, "find_degen"), idx.function(DK, "Data_K.degen"),
             idx.function(BK, "BKVectors.k_to_shells")]
    for f in sites:
        s = _border_signature(f, idx)
        r1.instance(f"{f.short}: cmp={s['cmp']} +1={s['plus1']} start0={s['start0']} end=len({s['endlen']}) pairs={s['pairs']}")
        node = s.get("cmp_node") or f.node
        if s["cmp"] is None:
            r1.expect(False, "", f, f.node, f"{f.short}: no `borders → consecutive pairs` construction found whose borders are "
                      f"0 | positions(gap(x) ⋛ thr) [+1] | len(x)")
            continue
        r1.check(s["cmp"] == "Gt", f"{f.name}: a border is where the gap is strictly greater than the threshold", f, node,
                 f"{f.name} splits groups where the gap is `{s['cmp']}` the threshold; its siblings use `>`: bands exactly "
                 f"`thresh` apart (or, with `<`, every degenerate pair) are grouped differently here than elsewhere")
        r1.check(bool(s["plus1"]), f"{f.name}: border index = position of the gap + 1", f, node,
                 f"{f.name} does not add 1 to the gap positions: every group boundary is shifted by one band")
        r1.check(bool(s["start0"]) and bool(s["endlen"]), f"{f.name}: sentinels 0 and len(x)", f, node,
                 f"{f.name} lacks the 0 / len(x) sentinels: the first or last group is dropped")
        r1.check(bool(s["pairs"]), f"{f.name}: groups are consecutive border pairs zip(b, b[1:])", f, node,
                 f"{f.name} does not pair consecutive borders")
    gb = sites[0]
    sg = _border_signature(gb, idx)
    kr = next((p_ for p_ in gb.params if "kramers" in p_.lower()), None)
    if kr is None:
        raise AnalysisError("get_borders: no degen_Kramers parameter")
    r1.check(sg.get("filter_cond") == "_ % 2 == 0" and (kr, True) in (sg.get("filter_guard") or []), "Kramers: only even borders are kept", gb, gb.node,
             "get_borders no longer restricts borders to even indices when degen_Kramers is requested", stmt="Kramers filter")
    gbr = idx.function(TET, "get_bands_in_range")
    gcs = [c for c in calls(gbr.node, "get_borders", suffix=False)]
    okc = False
    if len(gcs) == 1:
        from ..sem import Sem
        GS = Sem(idx, gbr)
        a0, a1, a2 = kwarg(gcs[0], gb.params[0], 0), kwarg(gcs[0], gb.params[1], 1), kwarg(gcs[0], gb.params[2], 2)
        okc = a0 is not None and a1 is not None and a2 is not None and norm(a0) == "Eband" and norm(GS.resolve(a1, GS.du.node_of_expr(gcs[0]))) == "degen_thresh" \
            and norm(GS.resolve(a2, GS.du.node_of_expr(gcs[0]))) == "degen_Kramers"
    r1.check(okc, "get_bands_in_range takes its groups from get_borders(Eband, degen_thresh, degen_Kramers)",
             gbr, gcs[0] if gcs else gbr.node, "get_bands_in_range no longer takes its groups from get_borders with its own threshold / Kramers setting",
             stmt="get_borders call")

    # ---------------------------------------------------------------- R15.2
    r2 = ctx.rule("R15.2", "window edges remove/add whole multiplets", min_instances=2)
    from ..sem import Sem, inline_private_helpers
    from ..algebra import Rat, to_rat
    f0 = idx.function(UT, "select_window_degen")
    f = inline_private_helpers(idx, f0)
    S = Sem(idx, f)
    cfg, du, pm = S.cfg, S.du, S.pm
    if len(f0.params) < 5:
        raise AnalysisError("select_window_degen: signature changed")
    Ep, thr_p = f0.params[0], f0.params[1]
    inc_p = next((p_ for p_ in f0.params if "include" in p_), None)
    if inc_p is None:
        raise AnalysisError("select_window_degen: no include_degen parameter")

    def mask_store(st: ast.stmt) -> Optional[bool]:
        """True / False for `mask[...] = True / False`"""
        if isinstance(st, ast.Assign) and len(st.targets) == 1 and isinstance(st.targets[0], ast.Subscript) and isinstance(st.targets[0].value, ast.Name) \
                and isinstance(st.value, ast.Constant) and isinstance(st.value.value, bool):
            return st.value.value
        return None

    def gap_tests(e: ast.AST) -> List[Tuple[ast.Compare, ast.AST, ast.AST]]:
        """comparisons `E[a] − E[b] < thresh` (or thresh > E[a] − E[b]) inside e → (node, a, b)"""
        out = []
        for c in ast.walk(e):
            if isinstance(c, ast.Compare) and len(c.ops) == 1:
                l, r_, op = c.left, c.comparators[0], c.ops[0]
                if isinstance(op, (ast.Gt, ast.GtE)) and norm(l) == thr_p:
                    l, r_, op = r_, l, (ast.Lt() if isinstance(op, ast.Gt) else ast.LtE())
                if isinstance(op, ast.Lt) and norm(r_) == thr_p and isinstance(l, ast.BinOp) and isinstance(l.op, ast.Sub) \
                        and isinstance(l.left, ast.Subscript) and isinstance(l.right, ast.Subscript) and norm(l.left.value) == norm(l.right.value) == Ep:
                    out.append((c, l.left.slice, l.right.slice))
                elif isinstance(op, ast.Lt) and norm(r_) == thr_p and isinstance(l, ast.Call) and call_name(l) in ("abs", "np.abs") and l.args \
                        and isinstance(l.args[0], ast.BinOp) and isinstance(l.args[0].op, ast.Sub) and isinstance(l.args[0].left, ast.Subscript) \
                        and isinstance(l.args[0].right, ast.Subscript) and norm(l.args[0].left.value) == norm(l.args[0].right.value) == Ep:
                    out.append((c, l.args[0].left.slice, l.args[0].right.slice))
        return out

    def sym_env(x):
        if isinstance(x, ast.Name):
            return Rat.sym(x.id)
        if isinstance(x, (ast.Call, ast.Attribute, ast.Subscript)):
            return Rat.sym(norm(x))
        return None

    def neighbour_gap(a: ast.AST, b: ast.AST) -> Optional[bool]:
        try:
            ia, ib = to_rat(a, sym_env), to_rat(b, sym_env)
        except Exception:
            return None
        return (ia - ib).equals(Rat.const(1)) or (ib - ia).equals(Rat.const(1))

    def resolved_test(t: ast.AST, at_stmt: ast.stmt, keep: set) -> ast.AST:
        saved = S.keep_names
        S.keep_names = set(keep)
        try:
            return S.resolve(t, cfg.node(at_stmt))
        finally:
            S.keep_names = saved

    def cond_has_gap(cs, pol: bool) -> bool:
        for t_, p_, _n in cs:
            if p_ is pol:
                try:
                    e_ = ast.parse(t_, mode="eval").body
                except SyntaxError:
                    continue
                if isinstance(e_, ast.Compare) and gap_tests(e_) and gap_tests(e_)[0][0] is e_:
                    return True
        return False

    def cond_inc(cs) -> Optional[bool]:
        for t_, p_, _n in cs:
            if t_ == inc_p:
                return p_
        return None

    # ---- every walk along neighbouring gaps (in the function or in the private helpers it calls) may visit every band:
    #      each index bound in the walk's guard is exactly the bound that keeps an accessed E[...] index inside [0, len(E) − 1]
    from ..sem import reachable_helpers
    walk_funcs = [(f, S)] + [(h_, Sem(idx, h_)) for h_ in reachable_helpers(idx, f0)]
    n_walks = 0
    for wf, WS in walk_funcs:
        e_name = Ep if wf is f else (wf.params[0] if wf.params else Ep)
        t_name = thr_p if wf is f else next((p_ for p_ in wf.params if "thr" in p_), thr_p)

        def gaps_in(e_: ast.AST):
            out_ = []
            for c_ in ast.walk(e_):
                if isinstance(c_, ast.Compare) and len(c_.ops) == 1 and isinstance(c_.ops[0], ast.Lt) and norm(c_.comparators[0]) == t_name:
                    l_ = c_.left
                    if isinstance(l_, ast.Call) and call_name(l_) in ("abs", "np.abs") and l_.args:
                        l_ = l_.args[0]
                    if isinstance(l_, ast.BinOp) and isinstance(l_.op, ast.Sub) and isinstance(l_.left, ast.Subscript) and isinstance(l_.right, ast.Subscript) \
                            and norm(l_.left.value) == norm(l_.right.value) == e_name:
                        out_.append((c_, l_.left.slice, l_.right.slice))
            return out_

        def wenv(x):
            if isinstance(x, ast.Call) and call_name(x) == "len" and len(x.args) == 1 and norm(x.args[0]) == e_name:
                return Rat.sym("N")
            if isinstance(x, ast.Subscript) and norm(x) == f"{e_name}.shape[0]":
                return Rat.sym("N")
            if isinstance(x, ast.Attribute) and norm(x) == f"{e_name}.size":
                return Rat.sym("N")
            if isinstance(x, ast.Name):
                r_ = None
                try:
                    ds_ = WS.du.reaching(x.id, cur_at[0])
                except Exception:
                    ds_ = []
                if len(ds_) == 1 and ds_[0].kind == "assign" and ds_[0].value is not None and isinstance(ds_[0].value, ast.Call) and call_name(ds_[0].value) == "len" \
                        and norm(ds_[0].value.args[0]) == e_name:
                    return Rat.sym("N")
                return Rat.sym(x.id)
            return None
        cur_at = [0]
        for lp_ in [x for x in ast.walk(wf.node) if isinstance(x, (ast.While, ast.For))]:
            cons = []     # (kind 'lo'|'hi', expression Rat e, bound Rat K, node)  meaning e ≥ K / e ≤ K
            acc = []
            cur_at[0] = WS.cfg.node(lp_)
            if isinstance(lp_, ast.While):
                test_r = lp_.test
                gts_ = gaps_in(test_r)
                if not gts_:
                    tr2 = resolved_test(lp_.test, lp_, {n_.id for st_ in ast.walk(lp_) for n_ in ast.walk(st_) if isinstance(n_, ast.Name) and isinstance(n_.ctx, ast.Store)}) if wf is f else lp_.test
                    gts_ = gaps_in(tr2)
                    test_r = tr2
                if not gts_:
                    continue
                conj = test_r.values if isinstance(test_r, ast.BoolOp) and isinstance(test_r.op, ast.And) else [test_r]
                for cj in conj:
                    if isinstance(cj, ast.Compare) and not gaps_in(cj):
                        terms = [cj.left] + list(cj.comparators)
                        for (a_, op_, b_) in zip(terms, cj.ops, terms[1:]):
                            try:
                                ra, rb = to_rat(a_, wenv), to_rat(b_, wenv)
                            except AnalysisError:
                                continue
                            one = Rat.const(1)
                            if isinstance(op_, ast.Lt):
                                cons += [("hi", ra, rb - one, cj), ("lo", rb, ra + one, cj)]
                            elif isinstance(op_, ast.LtE):
                                cons += [("hi", ra, rb, cj), ("lo", rb, ra, cj)]
                            elif isinstance(op_, ast.Gt):
                                cons += [("lo", ra, rb + one, cj), ("hi", rb, ra - one, cj)]
                            elif isinstance(op_, ast.GtE):
                                cons += [("lo", ra, rb, cj), ("hi", rb, ra, cj)]
            else:
                if not (isinstance(lp_.iter, ast.Call) and call_name(lp_.iter) == "range" and isinstance(lp_.target, ast.Name)):
                    continue
                own_ = [x for st_ in lp_.body for x in ast.walk(st_)]
                inner_ = [x for x in own_ if isinstance(x, (ast.While, ast.For))]
                tests_ = [x.test for x in own_ if isinstance(x, ast.If) and not any(x in ast.walk(il) for il in inner_)]
                gts_ = []
                for t_ in tests_:
                    g_ = gaps_in(t_) or (gaps_in(resolved_test(t_, enclosing(WS.pm, t_, ast.stmt) or lp_, {lp_.target.id})) if wf is f else [])
                    gts_ += g_
                if not gts_:
                    continue
                ra_ = lp_.iter.args
                w_ = Rat.sym(lp_.target.id)
                try:
                    if len(ra_) == 2 or (len(ra_) == 3 and norm(ra_[2]) == "1"):
                        cons.append(("hi", w_, to_rat(ra_[1], wenv) - Rat.const(1), lp_.iter))
                    elif len(ra_) == 3 and norm(ra_[2]).replace(" ", "") in ("-1", "(-1)"):
                        cons.append(("lo", w_, to_rat(ra_[1], wenv) + Rat.const(1), lp_.iter))
                    elif len(ra_) == 1:
                        cons.append(("hi", w_, to_rat(ra_[0], wenv) - Rat.const(1), lp_.iter))
                except AnalysisError:
                    continue
            for _c, a_, b_ in gts_:
                for ix in (a_, b_):
                    try:
                        acc.append(to_rat(ix, wenv))
                    except AnalysisError:
                        pass
            if not acc:
                continue
            n_walks += 1
            N_ = Rat.sym("N")
            for kind_, e_, K_, node_ in cons:
                rel = []
                for a_ in acc:
                    d_ = a_ - e_
                    dp = d_.as_poly() if d_.d.as_const() is not None else None
                    if dp is not None and dp.as_const() is not None:
                        rel.append(K_ + d_)
                if not rel:
                    continue            # the constraint is not about an accessed index
                want_ = Rat.const(0) if kind_ == "lo" else N_ - Rat.const(1)
                tight = any(r_.equals(want_) for r_ in rel)
                r2.check(tight, f"{wf.qualname}: walk guard keeps the accessed band index exactly inside [0, len({e_name}) − 1]", wf, node_,
                         f"{wf.qualname}: the walk along neighbouring gaps is guarded by `{norm1(node_, 70)}`, which limits an accessed index of {e_name} to "
                         f"{'≥ ' if kind_ == 'lo' else '≤ '}{' or '.join(str(r_) for r_ in rel)} instead of {'0' if kind_ == 'lo' else 'len − 1'}: "
                         f"the {'first' if kind_ == 'lo' else 'last'} band is never reached, so a multiplet containing it is split by the window edge",
                         stmt=f"walk bound {norm1(node_, 60)}")
    has_loops = any(isinstance(x, (ast.For, ast.While)) for wf_, _ in walk_funcs for x in ast.walk(wf_.node))
    r2.expect(n_walks >= 2 or not has_loops, "gap walks located", f, f.node, f"select_window_degen: expected ≥2 walks along neighbouring gaps (in it or its helpers), found {n_walks}")

    edge_loops = [l for l in stmts(f.node) if isinstance(l, ast.For) and isinstance(l.iter, ast.Call) and call_name(l.iter) == "range"
                  and any(mask_store(x) is not None for x in ast.walk(l) if isinstance(x, ast.stmt))
                  and not any(isinstance(p_, (ast.For, ast.While)) for p_ in enclosing_all(pm, l, (ast.For, ast.While)))]
    label_form = False
    if len(edge_loops) == 0 and n_walks == 0:
        label_form = _label_form(r2, S, f, Ep, thr_p, inc_p, mask_store, cond_inc)
    if label_form:
        edge_loops = []
    elif len(edge_loops) == 0:
        # slice form: the cut multiplet is added / removed by one slice store whose ends come from a gap walk
        sl_stores = [x for x in stmts(f.node) if mask_store(x) is not None and isinstance(x.targets[0].slice, ast.Slice)]
        if not r2.expect(len(sl_stores) >= 4 and n_walks >= 2, "slice stores located", f, f.node,
                         f"select_window_degen: neither two window-edge loops, nor four slice stores (include/exclude × upper/lower) fed by gap "
                         f"walks, nor multiplet labels (cumulative count of the gaps ≥ thresh) found"):
            sl_stores = []
        helper_names = {h_.name for h_, _ in walk_funcs[1:]}
        walk_vars = set()
        for lp_ in [x for x in ast.walk(f.node) if isinstance(x, ast.While)]:
            tr_ = resolved_test(lp_.test, lp_, {n_.id for st_ in ast.walk(lp_) for n_ in ast.walk(st_) if isinstance(n_, ast.Name) and isinstance(n_.ctx, ast.Store)})
            if gap_tests(tr_) or gap_tests(lp_.test):
                walk_vars |= {n_.id for st_ in lp_.body for n_ in ast.walk(st_) if isinstance(n_, ast.Name) and isinstance(n_.ctx, ast.Store)}
        for pol in ((True, False) if sl_stores else ()):
            mine = [x for x in sl_stores if mask_store(x) is pol and cond_inc(S.conditions(x)) is pol]
            r2.instance(f"{f.short}: slice stores under include_degen={pol}: {len(mine)}")
            okw = len(mine) >= 2
            for x in mine:
                sl_exprs, _, _ = du.backward_slice(x.targets[0].slice, cfg.node(x))
                from_walk = any(isinstance(c_, ast.Call) and (getattr(c_.func, "id", None) in helper_names or getattr(c_.func, "attr", None) in helper_names)
                                for e_ in list(sl_exprs) + [x.targets[0].slice] for c_ in ast.walk(e_)) or \
                    any(isinstance(n_, ast.Name) and n_.id in walk_vars for e_ in list(sl_exprs) + [x.targets[0].slice] for n_ in ast.walk(e_))
                okw = okw and from_walk
            r2.check(okw, f"include_degen={pol}: the cut multiplet is {'added' if pol else 'removed'} as one slice reaching to the end found by the gap walk (both edges)",
                     f, mine[0] if mine else f.node,
                     f"include_degen={pol}: the window edges do not {'add' if pol else 'remove'} the whole cut multiplet (a slice up to the end of the gap walk) on both edges")
        edge_loops = []
    elif len(edge_loops) != 2:
        raise AnalysisError(f"select_window_degen: expected two window-edge loops, found {len(edge_loops)}")
    for lp in edge_loops:
        rng = lp.iter.args
        direction = "lower" if len(rng) == 3 and norm(rng[2]).replace(" ", "") in ("-1", "(-1)") else "upper"
        r2.instance(f"{f.short}: {direction} edge: for {norm1(lp.target)} in {norm1(lp.iter)}")
        own = [x for x in ast.walk(lp) if isinstance(x, ast.stmt) and x is not lp]
        inner_loops = [x for x in own if isinstance(x, (ast.While, ast.For))]
        brks = [x for x in own if isinstance(x, ast.Break) and not any(l2 is not lp for l2 in enclosing_all(pm, x, (ast.For, ast.While)) if l2 in inner_loops)]
        # (a) the outer walk ends at the first gap ≥ thresh
        stop = [b for b in brks if cond_has_gap(S.conditions(b), False)]
        r2.check(bool(stop), f"{direction}: the walk stops at the first gap ≥ thresh", f, stop[0] if stop else lp,
                 f"{direction} edge: the walk does not stop at the first non-degenerate gap")
        # (b) include arm
        inc_stores = [x for x in own if mask_store(x) is True and cond_inc(S.conditions(x)) is True and cond_has_gap(S.conditions(x), True)]
        r2.expect(bool(inc_stores), f"{direction}/include: store located", f, lp,
                  f"select_window_degen ({direction}): no `mask[...] = True` under `{inc_p}` and a gap < thresh test found")
        for x in inc_stores:
            cont = cfg.reachable(cfg.node(x), [cfg.node(lp)], avoiding=[cfg.node(b) for b in brks])
            r2.check(cont, f"{direction}/include: neighbour added and the walk continues through the multiplet", f, x,
                     f"{direction} edge, include_degen=True: the walk stops after adding one band; a triplet cut by the window "
                     f"edge is only partly included")
        # (c) exclude arm
        exc_stores = [x for x in own if mask_store(x) is False and cond_inc(S.conditions(x)) is False]
        r2.expect(bool(exc_stores), f"{direction}/exclude: store located", f, lp,
                  f"select_window_degen ({direction}): no `mask[...] = False` under `not {inc_p}` found")
        whole = False
        for x in exc_stores:
            if isinstance(x.targets[0].slice, ast.Slice):
                whole = True
            for l2 in [l2 for l2 in enclosing_all(pm, x, (ast.While, ast.For)) if l2 in inner_loops]:
                if not isinstance(l2, ast.While):
                    if "thresh" in norm(l2):
                        whole = True
                    continue
                assigned = {n.id for st_ in ast.walk(l2) for n in ast.walk(st_) if isinstance(n, ast.Name) and isinstance(n.ctx, ast.Store)}
                rt = resolved_test(l2.test, l2, assigned | {lp.target.id if isinstance(lp.target, ast.Name) else ""})
                gts = gap_tests(rt)
                if gts:
                    whole = True
                for c, a, b in gts:
                    oknb = neighbour_gap(a, b)
                    syms = {n.id for n in ast.walk(a) if isinstance(n, ast.Name)} | {n.id for n in ast.walk(b) if isinstance(n, ast.Name)}
                    walkers = assigned & syms
                    fixed = {n_ for n_ in syms if n_ not in assigned and du.is_local(n_)}
                    r2.check(bool(oknb) and bool(walkers) and not fixed,
                             f"{direction}/exclude: the walk tests the gap between neighbouring bands of the walking index", f, l2,
                             f"{direction} edge: the inner walk tests `{norm1(c)}`: not the gap between neighbouring bands "
                             f"E[j] − E[j−1] of the walking index {sorted(assigned & syms) or sorted(assigned)}; a chain of bands each closer than "
                             f"thresh to its neighbour but farther from the edge band is split")
        r2.check(whole, f"{direction}/exclude: the whole cut multiplet is removed", f, exc_stores[0] if exc_stores else lp,
                 f"{direction} edge, include_degen=False: only one band (`{norm1(exc_stores[0]) if exc_stores else '?'}` then break) is "
                 f"removed; for a multiplet of three or more bands cut by the window edge the remaining members stay inside "
                 f"and the multiplet is split")

    # ---------------------------------------------------------------- R15.3
    r3 = ctx.rule("R15.3", "tabulation: per-band values come from per-group averages")
    tb = idx.function(TAB, "Tabulator.__call__")
    r3.instance(tb.short)
    check_band_values(r3, idx, tb, average=True)
    gcall = [c for c in method_calls(tb.node, "get_bands_in_range_groups")]
    r3.expect(len(gcall) == 1, "grouping call located", tb, tb.node, "Tabulator.__call__: get_bands_in_range_groups(…) not found")
    if gcall:
        kw = {k.arg: norm(k.value) for k in gcall[0].keywords}
        r3.check(kw.get("degen_thresh") == "self.degen_thresh" and kw.get("degen_Kramers") == "self.degen_Kramers", "groups use the calculator's thresholds", tb, gcall[0],
                 "Tabulator does not pass its degeneracy settings to the grouping", stmt="thresholds")

    # ---------------------------------------------------------------- R15.4
    r4 = ctx.rule("R15.4", "wannierise: frozen window excludes, outer window includes cut multiplets", min_instances=2)
    from .common import const_of
    w = inline_private_helpers(idx, idx.function(WAN, "wannierise"))
    WS = Sem(idx, w)
    swd = idx.function(UT, "select_window_degen")
    sp = swd.params
    dflt = {}
    a_ = swd.node.args
    for k_, d_ in zip(a_.args[len(a_.args) - len(a_.defaults):], a_.defaults):
        dflt[k_.arg] = d_
    sel = []   # (site node, {param: expr})
    for c in ast.walk(w.node):
        if not isinstance(c, ast.Call):
            continue
        if call_name(c).split(".")[-1] == "select_window_degen":
            kw = {sp[i_]: a for i_, a in enumerate(c.args) if i_ < len(sp)}
            kw.update({k.arg: k.value for k in c.keywords if k.arg})
            sel.append((c, kw))
        elif c.args and isinstance(c.args[0], ast.Name) and c.args[0].id == "select_window_degen":
            kd = kwarg(c, "kwargs", 99)
            if kd is not None:
                kd = WS.resolve(kd, WS.du.node_of_expr(c))
            if isinstance(kd, ast.Call) and call_name(kd) == "dict" and not kd.args:
                sel.append((c, {k.arg: k.value for k in kd.keywords if k.arg}))
            elif isinstance(kd, ast.Dict) and all(isinstance(k, ast.Constant) for k in kd.keys):
                sel.append((c, {k.value: v for k, v in zip(kd.keys, kd.values)}))
            else:
                r4.expect(False, "", w, c, f"wannierise: cannot read the keyword arguments handed to select_window_degen through `{norm1(c, 80)}`")
    for c, kw in sel:
        at_ = WS.du.node_of_expr(c)
        res = {k: norm(WS.resolve(v, at_)) for k, v in kw.items() if k in ("win_min", "win_max", "include_degen")}
        inc = res.get("include_degen", norm(dflt["include_degen"]) if "include_degen" in dflt else None)
        wmin = res.get("win_min", "")
        r4.instance(f"{w.short}: select_window_degen(win_min={wmin}, win_max={res.get('win_max')}, include_degen={inc})")
        if "froz" in wmin:
            r4.check(inc == "False", "frozen window leaves cut multiplets out", w, c,
                     "the frozen window is selected with include_degen=True: states outside the frozen window are frozen")
        elif "outer" in wmin:
            r4.check(inc == "True", "outer window takes cut multiplets in", w, c,
                     "the outer window is selected with include_degen=False: a multiplet cut by the window edge is split")
        else:
            r4.expect(False, "", w, c, f"wannierise: window `{wmin}` is neither the frozen nor the outer window")


from ..selftest import V  # noqa: E402

_UP_FIX = ("                j = i\n                inside[j] = False\n                while j > 0 and E[j] - E[j - 1] < thresh:\n"
           "                    j -= 1\n                    inside[j] = False\n                break\n")
_LO_FIX = ("                j = i\n                inside[j] = False\n                while j < NB - 1 and E[j + 1] - E[j] < thresh:\n"
           "                    j += 1\n                    inside[j] = False\n                break\n")
SELFTEST = [
    V("upper edge removes one band only (original defect)", UT, _UP_FIX, "                inside[i] = False\n                break\n",
      "fire", "R15.2"),
    V("lower edge removes one band only (original defect)", UT, _LO_FIX, "                inside[i] = False\n                break\n",
      "fire", "R15.2"),
    V("walk anchored to the edge band (seeded C15-m1)", UT, "while j > 0 and E[j] - E[j - 1] < thresh:", "while j > 0 and E[i] - E[j - 1] < thresh:",
      "fire", "R15.2"),
    V("exclude walk cannot reach the last band", UT, "while j < NB - 1 and E[j + 1] - E[j] < thresh:", "while j < NB - 2 and E[j + 1] - E[j] < thresh:", "fire", "R15.2"),
    V("upper edge loop stops one band early", UT, "    for i in range(ind[-1], NB - 1):\n", "    for i in range(ind[-1], NB - 2):\n", "fire", "R15.2"),
    V("include arm stops after one band", UT, "            if include_degen:\n                inside[i + 1] = True\n",
      "            if include_degen:\n                inside[i + 1] = True\n                break\n", "fire", "R15.2"),
    V("find_degen uses >=", UT, "A = np.where(arr[1:] - arr[:-1] > degen_thresh)[0] + 1", "A = np.where(arr[1:] - arr[:-1] >= degen_thresh)[0] + 1",
      "fire", "R15.1"),
    V("get_borders forgets the +1", TET, "borders = [0] + list(np.where((A[1:] - A[:-1]) > degen_thresh)[0] + 1) + [len(A)]",
      "borders = [0] + list(np.where((A[1:] - A[:-1]) > degen_thresh)[0]) + [len(A)]", "fire", "R15.1"),
    V("Kramers filter keeps odd borders", TET, "borders = [i for i in borders if i % 2 == 0]", "borders = [i for i in borders if i % 2 == 1]",
      "fire", "R15.1"),
    V("tabulated value not divided by the group size", TAB, "values[n] = formula.trace(ik, inn, out) / (n[1] - n[0])",
      "values[n] = formula.trace(ik, inn, out)", "fire", "R15.3"),
    V("trace misses the last band of the group", TAB, "inn = np.arange(n[0], n[1])", "inn = np.arange(n[0], n[1] - 1)", "fire", "R15.3"),
    V("frozen window includes cut multiplets", WAN, "kwargs=dict(win_min=froz_min, win_max=froz_max, include_degen=False))",
      "kwargs=dict(win_min=froz_min, win_max=froz_max, include_degen=True))", "fire", "R15.4"),
    V("find_degen loses the len(arr) sentinel", UT, "    A = [0, ] + list(A) + [len(arr)]\n", "    A = [0, ] + list(A)\n", "fire", "R15.1"),
    V("outer window relies on the include_degen=False default", WAN, "kwargs=dict(win_min=outer_min, win_max=outer_max, include_degen=True))",
      "kwargs=dict(win_min=outer_min, win_max=outer_max))", "fire", "R15.4"),
    V("Kramers filter applied unconditionally", TET, "    if degen_Kramers:\n        borders = [i for i in borders if i % 2 == 0]\n",
      "    borders = [i for i in borders if i % 2 == 0]\n", "fire", "R15.1"),
    V("neutral: find_degen as one starred list", UT, "    A = np.where(arr[1:] - arr[:-1] > degen_thresh)[0] + 1\n    A = [0, ] + list(A) + [len(arr)]\n",
      "    A = [0, *(np.where(arr[1:] - arr[:-1] > degen_thresh)[0] + 1), len(arr)]\n", "silent"),
    V("neutral: get_borders built step by step", TET, "    borders = [0] + list(np.where((A[1:] - A[:-1]) > degen_thresh)[0] + 1) + [len(A)]\n",
      "    gaps = A[1:] - A[:-1]\n    borders = [0]\n    borders.extend(np.flatnonzero(gaps > degen_thresh) + 1)\n    borders.append(len(A))\n", "silent"),
    V("neutral: np.diff spelling in find_degen", UT, "A = np.where(arr[1:] - arr[:-1] > degen_thresh)[0] + 1",
      "A = np.where(np.diff(arr) > degen_thresh)[0] + 1", "silent"),
]
