"""C15 — degenerate multiplets are never split (structural clauses).

R15.1 all "group a sorted array by gaps" sites use one definition of a group (siblings agree).
R15.2 window selection removes / adds whole multiplets cut by a window edge (any multiplet size).
R15.3 tabulation: every band of a group receives the group's averaged value.
R15.4 wannierise: frozen window excludes, outer window includes cut multiplets.
"""
from __future__ import annotations

import ast
from typing import Dict, List, Optional, Tuple

from ..index import AnalysisError, call_name, norm, norm1, names_in
from .common import calls, enclosing, enclosing_all, fctx, in_body, is_name, method_calls, stmts, store_targets
from .groups import check_band_values

LEVEL = "other"
EXPLANATION = (
    "Sibling cross-check of the four border computations (get_borders, find_degen, Data_K.degen, k_to_shells): "
    "difference form, strict `>` against the threshold, the +1 offset, both sentinels and the pairing zip(b, b[1:]) are "
    "extracted from the AST and must agree; Kramers filtering keeps even borders. For select_window_degen the exclude arm "
    "at each window edge must clear the membership of the whole cut multiplet (a slice store, or stores inside an inner "
    "loop that walks while the gap is below the threshold) — a single scalar store followed by break handles doublets "
    "only — and the include arm must keep walking. Tabulator.__call__ must write per-band values only from the per-group "
    "dictionary (trace over [n0,n1) divided by n1−n0). Not decided: behaviour for gaps numerically equal to the threshold.")

TET = "wannierberri/grid/tetrahedron.py"
UT = "wannierberri/utility.py"
DK = "wannierberri/data_K/data_K.py"
BK = "wannierberri/w90files/bkvectors.py"
TAB = "wannierberri/calculators/tabulate.py"
WAN = "wannierberri/wannierisation/wannierise.py"


def _border_signature(f) -> Dict[str, object]:
    sig: Dict[str, object] = {"cmp": None, "plus1": False, "start0": False, "endlen": False, "pairs": False, "array": None}
    for n in ast.walk(f.node):
        if isinstance(n, ast.Compare) and len(n.ops) == 1:
            l = n.left
            arr = None
            if isinstance(l, ast.BinOp) and isinstance(l.op, ast.Sub) and isinstance(l.left, ast.Subscript) \
                    and isinstance(l.right, ast.Subscript) and norm(l.left.slice) == "1:" and norm(l.right.slice) == ":-1" \
                    and norm(l.left.value) == norm(l.right.value):
                arr = norm(l.left.value)
            elif isinstance(l, ast.Call) and call_name(l) in ("np.diff", "numpy.diff") and l.args:
                arr = norm(l.args[0])
            if arr is not None:
                sig["cmp"] = type(n.ops[0]).__name__
                sig["array"] = arr
                sig["cmp_node"] = n
                # np.where(<cmp>)[0] + 1
                for m in ast.walk(f.node):
                    if isinstance(m, ast.BinOp) and isinstance(m.op, ast.Add) and isinstance(m.right, ast.Constant) \
                            and m.right.value == 1 and isinstance(m.left, ast.Subscript) and norm(m.left.slice) == "0" \
                            and isinstance(m.left.value, ast.Call) and call_name(m.left.value) in ("np.where", "numpy.where") \
                            and any(x is n for x in ast.walk(m.left.value)):
                        sig["plus1"] = True
                    # np.flatnonzero(<cmp>) + 1 / np.nonzero(<cmp>)[0] + 1
                    if isinstance(m, ast.BinOp) and isinstance(m.op, ast.Add) and isinstance(m.right, ast.Constant) and m.right.value == 1:
                        l2 = m.left
                        if isinstance(l2, ast.Subscript) and norm(l2.slice) == "0" and isinstance(l2.value, ast.Call) and call_name(l2.value) in ("np.nonzero", "numpy.nonzero"):
                            l2 = l2.value
                        if isinstance(l2, ast.Call) and call_name(l2) in ("np.flatnonzero", "numpy.flatnonzero", "np.nonzero", "numpy.nonzero") \
                                and any(x is n for x in ast.walk(l2)):
                            sig["plus1"] = True
                            sig["starts_node"] = m
    # np.split(A, starts): the cuts 0 | starts | len(A) and the pairing of consecutive cuts are what np.split does
    if sig.get("starts_node") is not None:
        pm = fctx(f)[2]
        du = fctx(f)[1]
        st = enclosing(pm, sig["starts_node"], ast.stmt)
        sname = st.targets[0].id if isinstance(st, ast.Assign) and isinstance(st.targets[0], ast.Name) and st.value is sig["starts_node"] else None
        for c in ast.walk(f.node):
            if isinstance(c, ast.Call) and call_name(c) in ("np.split", "numpy.split") and len(c.args) == 2 and \
                    (c.args[1] is sig["starts_node"] or (sname is not None and norm(c.args[1]) == sname)):
                sig["start0"], sig["endlen"], sig["pairs"] = True, norm(c.args[0]), True
    for n in ast.walk(f.node):
        if isinstance(n, ast.BinOp) and isinstance(n.op, ast.Add):
            # [0] + list(…) + [len(X)]
            parts = []
            x = n
            while isinstance(x, ast.BinOp) and isinstance(x.op, ast.Add):
                parts.append(x.right)
                x = x.left
            parts.append(x)
            parts.reverse()
            if len(parts) == 3 and isinstance(parts[0], ast.List) and isinstance(parts[2], ast.List):
                if len(parts[0].elts) == 1 and isinstance(parts[0].elts[0], ast.Constant) and parts[0].elts[0].value == 0:
                    sig["start0"] = True
                e = parts[2].elts[0] if parts[2].elts else None
                if isinstance(e, ast.Call) and call_name(e) == "len":
                    sig["endlen"] = norm(e.args[0])
        if isinstance(n, ast.Call) and call_name(n) == "zip" and len(n.args) == 2 and isinstance(n.args[1], ast.Subscript) \
                and norm(n.args[1].slice) == "1:" and (norm(n.args[1].value) == norm(n.args[0]) or (
                    isinstance(n.args[0], ast.Subscript) and norm(n.args[0].slice) == ":-1" and norm(n.args[0].value) == norm(n.args[1].value))):
            sig["pairs"] = True
        if isinstance(n, ast.Call) and call_name(n) in ("pairwise", "itertools.pairwise") and len(n.args) == 1:
            sig["pairs"] = True
    return sig


def run(ctx) -> None:
    idx = ctx.index

    # ---------------------------------------------------------------- R15.1
    r1 = ctx.rule("R15.1", "one definition of a degenerate group across all border computations", min_instances=4)
    sites = [idx.function(TET, "get_borders"), idx.function(UT, "find_degen"), idx.function(DK, "Data_K.degen"),
             idx.function(BK, "BKVectors.k_to_shells")]
    for f in sites:
        s = _border_signature(f)
        r1.instance(f"{f.short}: cmp={s['cmp']} +1={s['plus1']} start0={s['start0']} end=len({s['endlen']}) pairs={s['pairs']}")
        node = s.get("cmp_node") or f.node
        if s["cmp"] is None:
            raise AnalysisError(f"{f.short}: gap comparison `x[1:] - x[:-1] > thr` (or np.diff) not found")
        r1.check(s["cmp"] == "Gt", f"{f.name}: a border is where the gap is strictly greater than the threshold", f, node,
                 f"{f.name} splits groups where the gap is `{s['cmp']}` the threshold; its siblings use `>`: bands exactly "
                 f"`thresh` apart (or, with `<`, every degenerate pair) are grouped differently here than elsewhere")
        r1.check(bool(s["plus1"]), f"{f.name}: border index = position of the gap + 1", f, node,
                 f"{f.name} does not add 1 to the gap positions: every group boundary is shifted by one band")
        r1.check(bool(s["start0"]) and bool(s["endlen"]), f"{f.name}: sentinels 0 and len(x)", f, node,
                 f"{f.name} lacks the 0 / len(x) sentinels: the first or last group is dropped")
        r1.check(bool(s["pairs"]), f"{f.name}: groups are consecutive border pairs zip(b, b[1:])", f, node,
                 f"{f.name} does not pair consecutive borders")
    gb = sites[0]
    t = norm(gb.node).replace(" ", "")
    r1.check("ifdegen_Kramers:" in t and "[iforiinbordersifi%2==0]" in t, "Kramers: only even borders are kept", gb, gb.node,
             "get_borders no longer restricts borders to even indices when degen_Kramers is requested", stmt="Kramers filter")
    gbr = idx.function(TET, "get_bands_in_range")
    r1.check("get_borders(Eband, degen_thresh, degen_Kramers=degen_Kramers)" in norm(gbr.node), "get_bands_in_range uses get_borders",
             gbr, gbr.node, "get_bands_in_range no longer takes its groups from get_borders", stmt="get_borders call")

    # ---------------------------------------------------------------- R15.2
    r2 = ctx.rule("R15.2", "window edges remove/add whole multiplets", min_instances=2)
    f = idx.function(UT, "select_window_degen")
    cfg, du, pm = fctx(f)
    edge_loops = [s for s in stmts(f.node) if isinstance(s, ast.For) and "thresh" in norm(s)]
    if len(edge_loops) != 2:
        raise AnalysisError(f"select_window_degen: expected two window-edge loops, found {len(edge_loops)}")
    for lp in edge_loops:
        direction = "upper" if "NB" in norm(lp.iter) else "lower"
        r2.instance(f"{f.short}: {direction} edge: for {norm1(lp.target)} in {norm1(lp.iter)}")
        ifs = [s for s in ast.walk(lp) if isinstance(s, ast.If) and norm(s.test) == "include_degen"]
        if len(ifs) != 1:
            raise AnalysisError(f"select_window_degen ({direction}): `if include_degen:` arm not found")
        inc, exc = ifs[0].body, ifs[0].orelse
        gap_if = enclosing(pm, ifs[0], ast.If)
        r2.check(gap_if is not None and "< thresh" in norm(gap_if.test) and gap_if.orelse and
                 any(isinstance(x, ast.Break) for x in gap_if.orelse), f"{direction}: the walk stops at the first gap ≥ thresh",
                 f, gap_if or lp, f"{direction} edge: the walk does not stop at the first non-degenerate gap")
        # include arm: store True to the neighbour, no break
        inc_stores = [s for s in inc if isinstance(s, ast.Assign) and norm(s.targets[0].value if isinstance(s.targets[0], ast.Subscript) else s.targets[0]) == "inside"
                      and norm(s.value) == "True"]
        r2.check(bool(inc_stores) and not any(isinstance(x, ast.Break) for s in inc for x in ast.walk(s)),
                 f"{direction}/include: neighbour added and the walk continues through the multiplet", f, ifs[0],
                 f"{direction} edge, include_degen=True: the walk stops after adding one band; a triplet cut by the window "
                 f"edge is only partly included")
        # exclude arm
        stores = [s for s in ast.walk(ifs[0]) if isinstance(s, ast.Assign) and in_body(exc, s)
                  and isinstance(s.targets[0], ast.Subscript) and norm(s.targets[0].value) == "inside" and norm(s.value) == "False"]
        whole = False
        for s in stores:
            if isinstance(s.targets[0].slice, ast.Slice):
                whole = True
            inner = [l for l in enclosing_all(pm, s, (ast.While, ast.For)) if in_body(exc, l)]
            for l in inner:
                cond = norm(l.test) if isinstance(l, ast.While) else norm(l)
                if "thresh" in cond:
                    whole = True
        # the inner walk must follow NEIGHBOUR gaps of the walking index (E[j] − E[j−1]), not distances to the edge band
        for s_ in stores:
            for l in [l for l in enclosing_all(pm, s_, ast.While) if in_body(exc, l)]:
                walkers = {a.target.id for a in ast.walk(l) if isinstance(a, ast.AugAssign) and isinstance(a.target, ast.Name)}
                gaps = [c for c in ast.walk(l.test) if isinstance(c, ast.Compare) and "thresh" in norm(c)
                        and isinstance(c.left, ast.BinOp) and isinstance(c.left.op, ast.Sub)]
                for c in gaps:
                    a, b = c.left.left, c.left.right
                    oknb = isinstance(a, ast.Subscript) and isinstance(b, ast.Subscript) and norm(a.value) == norm(b.value) == "E"
                    if oknb:
                        from ..algebra import Rat, to_rat
                        env_ = lambda x: Rat.sym(x.id) if isinstance(x, ast.Name) else None
                        ia, ib = to_rat(a.slice, env_), to_rat(b.slice, env_)
                        oknb = (ia - ib).equals(Rat.const(1)) and bool(walkers) and \
                            all(w in ia.n.symbols() and w in ib.n.symbols() for w in walkers)
                    r2.check(oknb, f"{direction}/exclude: the walk tests the gap between neighbouring bands of the walking index", f, l,
                             f"{direction} edge: the inner walk tests `{norm1(c)}`: not the gap between neighbouring bands "
                             f"E[j] − E[j−1] of the walking index {sorted(walkers)}; a chain of bands each closer than thresh to its "
                             f"neighbour but farther from the edge band is split")
        r2.check(whole, f"{direction}/exclude: the whole cut multiplet is removed", f, stores[0] if stores else ifs[0],
                 f"{direction} edge, include_degen=False: only one band (`{norm1(stores[0]) if stores else '?'}` then break) is "
                 f"removed; for a multiplet of three or more bands cut by the window edge the remaining members stay inside "
                 f"and the multiplet is split")

    # ---------------------------------------------------------------- R15.3
    r3 = ctx.rule("R15.3", "tabulation: per-band values come from per-group averages")
    tb = idx.function(TAB, "Tabulator.__call__")
    r3.instance(tb.short)
    check_band_values(r3, idx, tb, average=True)
    gcall = [c for c in method_calls(tb.node, "get_bands_in_range_groups")]
    r3.expect(len(gcall) == 1, "grouping call located", tb, tb.node, "Tabulator.__call__: get_bands_in_range_groups(…) not found")
    if gcall:
        kw = {k.arg: norm(k.value) for k in gcall[0].keywords}
        r3.check(kw.get("degen_thresh") == "self.degen_thresh" and kw.get("degen_Kramers") == "self.degen_Kramers", "groups use the calculator's thresholds", tb, gcall[0],
                 "Tabulator does not pass its degeneracy settings to the grouping", stmt="thresholds")

    # ---------------------------------------------------------------- R15.4
    r4 = ctx.rule("R15.4", "wannierise: frozen window excludes, outer window includes cut multiplets", min_instances=2)
    w = idx.function(WAN, "wannierise")
    for s in stmts(w.node):
        if isinstance(s, ast.Assign) and "select_window_degen" in norm(s.value):
            kw = None
            for c in ast.walk(s.value):
                if isinstance(c, ast.Call) and call_name(c) == "dict":
                    kw = {k.arg: norm(k.value) for k in c.keywords}
            if kw is None:
                raise AnalysisError("wannierise: kwargs of select_window_degen not a dict(...) literal")
            r4.instance(f"{w.short}: {norm1(s.targets[0])} ← {kw}")
            if "froz" in kw.get("win_min", ""):
                r4.check(kw.get("include_degen") == "False", "frozen window leaves cut multiplets out", w, s,
                         "the frozen window is selected with include_degen=True: states outside the frozen window are frozen")
            elif "outer" in kw.get("win_min", ""):
                r4.check(kw.get("include_degen") == "True", "outer window takes cut multiplets in", w, s,
                         "the outer window is selected with include_degen=False: a multiplet cut by the window edge is split")


from ..selftest import V  # noqa: E402

_UP_FIX = ("                j = i\n                inside[j] = False\n                while j > 0 and E[j] - E[j - 1] < thresh:\n"
           "                    j -= 1\n                    inside[j] = False\n                break\n")
_LO_FIX = ("                j = i\n                inside[j] = False\n                while j < NB - 1 and E[j + 1] - E[j] < thresh:\n"
           "                    j += 1\n                    inside[j] = False\n                break\n")
SELFTEST = [
    V("upper edge removes one band only (original defect)", UT, _UP_FIX, "                inside[i] = False\n                break\n",
      "fire", "R15.2"),
    V("lower edge removes one band only (original defect)", UT, _LO_FIX, "                inside[i] = False\n                break\n",
      "fire", "R15.2"),
    V("walk anchored to the edge band (seeded C15-m1)", UT, "while j > 0 and E[j] - E[j - 1] < thresh:", "while j > 0 and E[i] - E[j - 1] < thresh:",
      "fire", "R15.2"),
    V("include arm stops after one band", UT, "            if include_degen:\n                inside[i + 1] = True\n",
      "            if include_degen:\n                inside[i + 1] = True\n                break\n", "fire", "R15.2"),
    V("find_degen uses >=", UT, "A = np.where(arr[1:] - arr[:-1] > degen_thresh)[0] + 1", "A = np.where(arr[1:] - arr[:-1] >= degen_thresh)[0] + 1",
      "fire", "R15.1"),
    V("get_borders forgets the +1", TET, "borders = [0] + list(np.where((A[1:] - A[:-1]) > degen_thresh)[0] + 1) + [len(A)]",
      "borders = [0] + list(np.where((A[1:] - A[:-1]) > degen_thresh)[0]) + [len(A)]", "fire", "R15.1"),
    V("Kramers filter keeps odd borders", TET, "borders = [i for i in borders if i % 2 == 0]", "borders = [i for i in borders if i % 2 == 1]",
      "fire", "R15.1"),
    V("tabulated value not divided by the group size", TAB, "values[n] = formula.trace(ik, inn, out) / (n[1] - n[0])",
      "values[n] = formula.trace(ik, inn, out)", "fire", "R15.3"),
    V("trace misses the last band of the group", TAB, "inn = np.arange(n[0], n[1])", "inn = np.arange(n[0], n[1] - 1)", "fire", "R15.3"),
    V("frozen window includes cut multiplets", WAN, "kwargs=dict(win_min=froz_min, win_max=froz_max, include_degen=False))",
      "kwargs=dict(win_min=froz_min, win_max=froz_max, include_degen=True))", "fire", "R15.4"),
    V("neutral: np.diff spelling in find_degen", UT, "A = np.where(arr[1:] - arr[:-1] > degen_thresh)[0] + 1",
      "A = np.where(np.diff(arr) > degen_thresh)[0] + 1", "silent"),
]
