"""CLI: /venv/bin/python -m wbstatic.check <ID> [--tier quick|thorough] [--replay file] [--root DIR]

exit 0  property's static rules hold on everything analysed (KNOWN-FINDING lines may be printed)
exit 1  VIOLATION property=<id> replay=<path>     (a construct matches a rule's violation pattern)
exit 2  ANALYSIS-ERROR …                           (anchor vanished / construct not understood / vacuous rule)
"""
from __future__ import annotations

import argparse
import importlib
import json
import os
import sys
import time
import traceback

from .index import AnalysisError, Index
from .report import Ctx, load_known, match_known, write_evidence, write_replay

CLAIMED = ["C02", "C04", "C05", "C06", "C07", "C08", "C11", "C12", "C13", "C14", "C15", "C16", "C17", "C18",
           "C19", "C22", "C23", "C25", "C26", "C29", "C30", "C32", "C33"]


def load_rules(prop: str):
    try:
        return importlib.import_module(f"wbstatic.rules.{prop.lower()}")
    except ModuleNotFoundError as e:
        if e.name and e.name.endswith(prop.lower()):
            raise AnalysisError(f"no rules implemented for {prop}")
        raise


def analyse(prop: str, tier: str, root=None, quiet=False):
    """Run the rules of `prop` on the tree at `root`; returns the Ctx (used by the CLI and by the self-test)."""
    idx = Index(root)
    ctx = Ctx(prop, tier, idx, quiet=quiet)
    mod = load_rules(prop)
    mod.run(ctx)
    ctx.finish_rules()
    return ctx, mod


def main(argv=None) -> int:
    ap = argparse.ArgumentParser()
    ap.add_argument("prop")
    ap.add_argument("--tier", default=os.environ.get("VERIF_TIER") or "quick", choices=["quick", "thorough"])
    ap.add_argument("--replay", default=None)
    ap.add_argument("--root", default=None)
    ap.add_argument("--no-selftest", action="store_true")
    ap.add_argument("--no-evidence", action="store_true")
    a = ap.parse_args(argv)
    prop = a.prop.upper()
    t0 = time.time()
    try:
        ctx, mod = analyse(prop, a.tier, a.root)
        known = load_known()
        findings = ctx.findings()
        if a.replay:
            with open(a.replay) as fh:
                want = json.load(fh)["key"]
            findings = [f for f in findings if f.key == want]
            print(f"replay: {len(findings)} finding(s) with key {want!r} on the current tree")
        new, old = [], []
        for f in findings:
            k = match_known(f, known)
            (old if k else new).append((f, k))
        selftest = None
        if a.tier == "thorough" and not a.no_selftest and not a.replay:
            from . import selftest as st
            selftest = st.run(prop)
        for r in ctx.rules:
            tag = "" if r.armed else " [advisory]"
            print(f"[{prop}] {r.id}{tag} {r.title}: instances={len(r.instances)} "
                  f"obligations={r.obligations} discharged={r.discharged}")
            for o in r.observations:
                print(f"    (out of scope) {o}")
        for f, k in old:
            print(f"KNOWN-FINDING: property={prop} {f.rule} {f.construct}: {f.stmt} -- {f.message}")
        paths = []
        for i, (f, _) in enumerate(new):
            p = write_replay(f, i)
            paths.append(p)
            print(f"  {f.file}:{f.line}: [{f.rule}] {f.construct}: {f.stmt}\n      {f.message}")
            for k, v in f.extra.items():
                if k == "path" and isinstance(v, list):
                    print("      path: " + " -> ".join(v))
                else:
                    print(f"      {k}: {v}")
        st_bad = bool(selftest and selftest.get("failed"))
        if not a.no_evidence and not a.replay:
            level = getattr(mod, "LEVEL", "other")
            proof = mod.proof_info(ctx) if hasattr(mod, "proof_info") else None
            if level == "proof" and (new or old):
                level = "other"
            write_evidence(ctx, level, time.time() - t0, len(new), len(old),
                           getattr(mod, "EXPLANATION", ""), proof, selftest)
        for p in paths:
            print(f"VIOLATION property={prop} replay={p}")
        if new:
            return 1
        if st_bad:
            # the catalogue was written for the tree the rules were developed on; on another tree a variant that no longer behaves as recorded says
            # something about the catalogue, not about the property, so it is reported (and kept in the evidence) without changing the verdict
            for v in selftest["failed"]:
                print(f"SELFTEST-NOTE {prop}: variant {v['name']!r}: {v['why']}")
        print(f"[{prop}] OK tier={a.tier} rules={len(ctx.rules)} "
              f"obligations={sum(r.obligations for r in ctx.rules)} wall={time.time() - t0:.2f}s"
              + (f" selftest: {selftest['fired']}/{selftest['breaking']} breaking variants caught, "
                 f"{selftest['silent']}/{selftest['neutral']} neutral variants silent"
                 + (f" (skipped, anchor text absent: {selftest['skipped']})" if selftest.get('skipped') else "") if selftest else ""))
        return 0
    except AnalysisError as e:
        print(f"ANALYSIS-ERROR {prop}: {e}")
        return 2
    except Exception:  # any checker bug is an analysis error, never a violation
        traceback.print_exc()
        print(f"ANALYSIS-ERROR {prop}: internal error in the checker")
        return 2


if __name__ == "__main__":
    sys.exit(main())
