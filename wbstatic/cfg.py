"""E1 — statement-level control-flow graph per function (networkx), dominators, must-pass-through queries.

Nodes are integers. Every node carries attribute `stmt` (the ast statement, or None for synthetic
nodes) and `kind` in {entry, exit, raise, stmt, test, loop, join, handler}. Compound statements
contribute a header node (`test` for if/while, `loop` for the for-header, `with`) and their bodies.

Exceptions: inside a `try` body every statement gets an edge to every handler of that try
(over-approximation: any statement may raise). Outside a `try`, implicit exceptions are not modelled
(they leave the function; rules ask about paths to a *normal* return). `raise` goes to the innermost
enclosing handlers if any, else to RAISE. `finally` bodies are placed on the normal and on the
return/raise routes through a shared copy (one copy per try; the post-finally target is the union of
continuations, which only over-approximates paths — safe for "every path passes X" rules).
"""
from __future__ import annotations

import ast
from typing import Callable, Dict, Iterable, List, Optional, Set, Tuple

import networkx as nx

from .index import AnalysisError, norm1


class CFG:
    def __init__(self, func: ast.AST):
        self.func = func
        self.g = nx.DiGraph()
        self._n = 0
        self.entry = self._new("entry")
        self.exit = self._new("exit")       # normal return (explicit or fall off the end)
        self.raise_ = self._new("raise")    # exceptional exit
        self.node_of: Dict[ast.AST, int] = {}
        # context stacks
        self._loop: List[Tuple[int, int]] = []           # (continue target, break target)
        self._handlers: List[List[int]] = []             # stack of handler entry nodes for enclosing try bodies
        self._finally: List[Optional[Tuple[int, int]]] = []  # stack of (finally entry, finally exit)
        body = func.body if hasattr(func, "body") else []
        last = self._seq(body, [self.entry])
        for p in last:
            self.g.add_edge(p, self.exit)
        self._idom = None
        self._ipdom = None

    # ------------------------------------------------------------------ construction
    def _new(self, kind: str, stmt: Optional[ast.AST] = None) -> int:
        i = self._n
        self._n += 1
        self.g.add_node(i, kind=kind, stmt=stmt)
        if stmt is not None and stmt not in self.node_of:
            self.node_of[stmt] = i
        return i

    def _link(self, preds: Iterable[int], n: int) -> None:
        for p in preds:
            self.g.add_edge(p, n)

    def _exc_edges(self, n: int) -> None:
        if self._handlers:
            for h in self._handlers[-1]:
                self.g.add_edge(n, h)

    def _seq(self, stmts: List[ast.stmt], preds: List[int]) -> List[int]:
        for s in stmts:
            preds = self._stmt(s, preds)
        return preds

    def _route_exit(self, n: int, target: int) -> None:
        """Return/raise from node n to `target`, through enclosing finally blocks."""
        fins = [f for f in self._finally if f is not None]
        if fins:
            f_entry, f_exit = fins[-1]
            self.g.add_edge(n, f_entry)
            self.g.add_edge(f_exit, target)
        else:
            self.g.add_edge(n, target)

    def _stmt(self, s: ast.stmt, preds: List[int]) -> List[int]:
        if isinstance(s, ast.If):
            t = self._new("test", s)
            self._link(preds, t)
            self._exc_edges(t)
            a = self._seq(s.body, [t])
            b = self._seq(s.orelse, [t]) if s.orelse else [t]
            return a + b
        if isinstance(s, (ast.For, ast.AsyncFor, ast.While)):
            h = self._new("loop" if not isinstance(s, ast.While) else "test", s)
            self._link(preds, h)
            self._exc_edges(h)
            brk = self._new("join")
            self._loop.append((h, brk))
            body_end = self._seq(s.body, [h])
            self._loop.pop()
            self._link(body_end, h)
            infinite = isinstance(s, ast.While) and isinstance(s.test, ast.Constant) and bool(s.test.value)
            out: List[int] = []
            if not infinite:
                out = self._seq(s.orelse, [h]) if s.orelse else [h]
            if self.g.in_degree(brk) > 0:
                out = out + [brk]
            else:
                self.g.remove_node(brk)
            return out
        if isinstance(s, (ast.With, ast.AsyncWith)):
            w = self._new("stmt", s)
            self._link(preds, w)
            self._exc_edges(w)
            return self._seq(s.body, [w])
        if isinstance(s, ast.Try) or s.__class__.__name__ == "TryStar":
            return self._try(s, preds)
        if isinstance(s, ast.Match):
            t = self._new("test", s)
            self._link(preds, t)
            outs: List[int] = []
            exhaustive = False
            for case in s.cases:
                outs += self._seq(case.body, [t])
                if isinstance(case.pattern, ast.MatchAs) and case.pattern.pattern is None and case.guard is None:
                    exhaustive = True
            if not exhaustive:
                outs.append(t)
            return outs
        n = self._new("stmt", s)
        self._link(preds, n)
        if isinstance(s, ast.Return):
            self._route_exit(n, self.exit)
            return []
        if isinstance(s, ast.Raise):
            if self._handlers:
                for h in self._handlers[-1]:
                    self.g.add_edge(n, h)
            self._route_exit(n, self.raise_)
            return []
        if isinstance(s, ast.Break):
            if not self._loop:
                raise AnalysisError("break outside loop")
            self.g.add_edge(n, self._loop[-1][1])
            return []
        if isinstance(s, ast.Continue):
            if not self._loop:
                raise AnalysisError("continue outside loop")
            self.g.add_edge(n, self._loop[-1][0])
            return []
        self._exc_edges(n)
        if isinstance(s, ast.Assert):
            # an assert may raise; the failing route leaves the function (not a normal return)
            pass
        return [n]

    def _try(self, s, preds: List[int]) -> List[int]:
        hentries = [self._new("handler", h) for h in s.handlers]
        fin: Optional[Tuple[int, int]] = None
        if s.finalbody:
            f_entry = self._new("join")
            f_out = self._seq(s.finalbody, [f_entry])
            f_exit = self._new("join")
            self._link(f_out, f_exit)
            fin = (f_entry, f_exit)
        self._finally.append(fin)
        self._handlers.append(hentries if hentries else (self._handlers[-1] if self._handlers else []))
        pre = self._new("join")
        self._link(preds, pre)
        body_end = self._seq(s.body, [pre])
        self._handlers.pop()
        else_end = self._seq(s.orelse, body_end) if s.orelse else body_end
        outs = list(else_end)
        for h, he in zip(s.handlers, hentries):
            outs += self._seq(h.body, [he])
        self._finally.pop()
        if fin is not None:
            self._link(outs, fin[0])
            # an exception not caught by any handler also runs finally, then leaves
            self.g.add_edge(fin[1], self.raise_) if not hentries else None
            return [fin[1]]
        return outs

    # ------------------------------------------------------------------ queries
    def nodes_where(self, pred: Callable[[ast.AST], bool]) -> List[int]:
        return [n for n, d in self.g.nodes(data=True) if d["stmt"] is not None and pred(d["stmt"])]

    def stmt(self, n: int) -> Optional[ast.AST]:
        return self.g.nodes[n]["stmt"]

    def node(self, stmt: ast.AST) -> int:
        if stmt not in self.node_of:
            raise AnalysisError(f"statement not in CFG: {norm1(stmt)}")
        return self.node_of[stmt]

    def idom(self) -> Dict[int, int]:
        if self._idom is None:
            self._idom = nx.immediate_dominators(self.g, self.entry)
        return self._idom

    def dominates(self, a: int, b: int) -> bool:
        """a dominates b (every path entry→b passes a)."""
        idom = self.idom()
        if b not in idom:
            return True  # unreachable
        x = b
        while True:
            if x == a:
                return True
            p = idom.get(x)
            if p is None or p == x:
                return False
            x = p

    def reachable(self, a: int, targets: Iterable[int], avoiding: Iterable[int] = ()) -> bool:
        """Is some node of `targets` reachable from a (a itself excluded as start-only) without entering `avoiding`?"""
        avoid = set(avoiding)
        targets = set(targets)
        seen = {a}
        stack = [a]
        while stack:
            x = stack.pop()
            for y in self.g.successors(x):
                if y in avoid or y in seen:
                    continue
                if y in targets:
                    return True
                seen.add(y)
                stack.append(y)
        return False

    def path_avoiding(self, a: int, target: int, avoiding: Iterable[int] = ()) -> Optional[List[int]]:
        """A concrete path a→target that avoids the nodes in `avoiding` (for diagnostics), or None."""
        avoid = set(avoiding)
        prev: Dict[int, int] = {a: a}
        stack = [a]
        while stack:
            x = stack.pop(0)
            for y in self.g.successors(x):
                if y in avoid or y in prev:
                    continue
                prev[y] = x
                if y == target:
                    out = [y]
                    while out[-1] != a:
                        out.append(prev[out[-1]])
                    return list(reversed(out))
                stack.append(y)
        return None

    def must_pass(self, a: int, through: Iterable[int], to: Optional[int] = None) -> bool:
        """Every path from a to `to` (default: normal exit) passes through one of `through`."""
        to = self.exit if to is None else to
        through = set(through)
        if a in through:
            return True
        return not self.reachable(a, [to], avoiding=through)

    def describe_path(self, path: List[int]) -> List[str]:
        out = []
        for n in path:
            d = self.g.nodes[n]
            if d["stmt"] is not None:
                st = d["stmt"]
                if isinstance(st, (ast.If, ast.While)):
                    out.append(f"L{st.lineno}: {'if' if isinstance(st, ast.If) else 'while'} {norm1(st.test, 70)}")
                elif isinstance(st, (ast.For, ast.AsyncFor)):
                    out.append(f"L{st.lineno}: for {norm1(st.target, 30)} in {norm1(st.iter, 50)}")
                elif isinstance(st, ast.ExceptHandler):
                    out.append(f"L{st.lineno}: except {norm1(st.type, 40) if st.type else ''}")
                elif isinstance(st, (ast.With, ast.Try)):
                    out.append(f"L{st.lineno}: {st.__class__.__name__.lower()}")
                else:
                    out.append(f"L{st.lineno}: {norm1(st, 90)}")
            else:
                if d["kind"] in ("entry", "exit", "raise"):
                    out.append(d["kind"].upper())
        return out

    def in_loop_body(self, loop_stmt: ast.AST) -> Set[int]:
        """CFG nodes belonging to the body of a loop statement."""
        out = set()
        for sub in loop_stmt.body:
            for n in ast.walk(sub):
                if n in self.node_of:
                    out.add(self.node_of[n])
        return out


def build_cfg(func_node: ast.AST) -> CFG:
    return CFG(func_node)
