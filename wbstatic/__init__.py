"""wbstatic — repository-specific static analysis of wannier-berri (see /verif/DESIGN.md).

Nothing in this package imports or executes `wannierberri`; every deciding step works on the
syntax trees of /repo's *current working tree* (root overridable with WBSTATIC_REPO for self-tests).
"""
