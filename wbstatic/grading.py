"""E4 — abstract interpretation of formula code over the discrete-symmetry grade lattice.

A grade is the pair (sTR, sInv) ∈ {±1}² of a covariant k-space matrix X:
    time reversal :  X(−k) = sTR · X(k)*        inversion :  X(−k) = sInv · X(k)
(per Cartesian component, up to unitary mixing inside degenerate groups, to which traces are blind).
Lattice:  Z (identically zero)  ⊑  (sTR, sInv)  ⊑  TOP (unknown / mixed).

Transfer rules: products (einsum, *, @) multiply grades; + and − require equal grades (homogeneity); real scalars,
.conj(), transposes, swapaxes, slicing, .real, Hermitian (anti)symmetrisation keep the grade; an imaginary literal
and .imag / np.imag flip sTR; every k-derivative flips both signs.
"""
from __future__ import annotations

import ast
from dataclasses import dataclass, field
from typing import Callable, Dict, List, Optional, Tuple

from .index import AnalysisError, ClassInfo, FunctionInfo, Index, call_name, dotted, norm, norm1

Z = "Z"
TOP = "TOP"
REAL = (1, 1)
IMAG = (-1, 1)
Grade = object  # 'Z' | 'TOP' | (int, int)

# the only physics put in by hand: parities of the basic covariant matrices (before any k-derivative)
BASE: Dict[str, Tuple[int, int]] = {
    "Ham": (1, 1),
    "AA": (1, -1), "BB": (1, -1),
    "CC": (-1, 1), "OO": (-1, 1), "rotAA": (-1, 1), "SS": (-1, 1),
    "FF": (1, 1), "GG": (1, 1), "rotAAab": (1, 1), "CCab": (1, 1), "CCab_antisym": (1, 1),
    # spin-current auxiliaries:  S·H, S·r, S·H·r, S·A, S·H·A
    "SH": (-1, 1), "SR": (-1, -1), "SHR": (-1, -1), "SA": (-1, -1), "SHA": (-1, -1),
}
DER = (-1, -1)


def mul(a: Grade, b: Grade) -> Grade:
    if a == Z or b == Z:
        return Z
    if a == TOP or b == TOP:
        return TOP
    return (a[0] * b[0], a[1] * b[1])


def val(x, which: str = "nn") -> Grade:
    """Grade of a leaf that may be a ClassResult (method-specific) or a plain grade."""
    if isinstance(x, ClassResult):
        g = x.nn if which in ("nn", "ll") else x.ln
        if g == TOP:
            g = x.ln if which in ("nn", "ll") else x.nn
        return g
    return x


def gpow(a: Grade, n: int) -> Grade:
    r: Grade = REAL
    for _ in range(n % 2):
        r = mul(r, a)
    return r


def flip_t(a: Grade) -> Grade:
    return a if a in (Z, TOP) else (-a[0], a[1])


def show(g: Grade) -> str:
    if g in (Z, TOP):
        return str(g)
    return "(" + ("+" if g[0] > 0 else "−") + "," + ("+" if g[1] > 0 else "−") + ")"


def base_grade(name: str, nder: int) -> Grade:
    if name not in BASE:
        return TOP
    return mul(BASE[name], gpow(DER, nder))


@dataclass
class Conflict:
    where: str
    node: ast.AST
    acc: Grade
    term: Grade
    text: str


@dataclass
class ClassResult:
    cls: ClassInfo
    nn: Grade = TOP
    ln: Grade = TOP
    terms: int = 0
    conflicts: List[Conflict] = field(default_factory=list)
    unknown: List[str] = field(default_factory=list)
    declared: Optional[Tuple[Optional[int], Optional[int]]] = None
    declared_node: Optional[ast.AST] = None
    env: Dict[str, Grade] = field(default_factory=dict)

    @property
    def value(self) -> Grade:
        """Grade of the formula (nn if available, else ln)."""
        return self.nn if self.nn not in (TOP,) or self.ln == TOP else self.nn


class GradeEngine:
    def __init__(self, idx: Index):
        self.idx = idx
        self.memo: Dict[Tuple[str, Tuple], ClassResult] = {}
        self._active: set = set()
        self.sum_literals: List[Tuple[ast.AST, List[Grade]]] = []

    # ------------------------------------------------------------------ declared transforms
    @staticmethod
    def _decl_sign(e: ast.AST) -> Optional[object]:
        t = norm(e)
        if t.endswith("transform_ident"):
            return 1
        if t.endswith("transform_odd"):
            return -1
        if t == "None":
            return None
        return "other:" + t

    def declared(self, c: ClassInfo) -> Tuple[Optional[object], Optional[object], Optional[ast.AST]]:
        """(TR, Inv, node) declared by the class's own __init__ chain (first class in the MRO that assigns them)."""
        tr = inv = node = None
        for k in self.idx.mro(c):
            ini = k.methods.get("__init__")
            if ini is None:
                continue
            for s in ast.walk(ini.node):
                if isinstance(s, ast.Assign) and len(s.targets) == 1 and isinstance(s.targets[0], ast.Attribute) \
                        and isinstance(s.targets[0].value, ast.Name) and s.targets[0].value.id == "self":
                    passthrough = isinstance(s.value, ast.Name) and s.value.id in ("transformTR", "transformInv")
                    if s.targets[0].attr == "transformTR" and tr is None and not passthrough:
                        tr, node = self._decl_sign(s.value), s
                    if s.targets[0].attr == "transformInv" and inv is None and not passthrough:
                        inv = self._decl_sign(s.value)
            if tr is not None or inv is not None:
                break
        return tr, inv, node

    # ------------------------------------------------------------------ leaf expressions (constructor side)
    def leaf(self, e: ast.AST, m, params: Dict[str, ast.AST], bound: Dict[str, Grade]) -> Grade:
        """Grade of a constructor-side expression: data_K.covariant(...), data_K.Dcov, Class(data_K, …), data_K.E_K …"""
        if isinstance(e, ast.Name) and e.id in bound and not (isinstance(bound[e.id], tuple) and bound[e.id] and bound[e.id][0] == "class"):
            return bound[e.id]
        if isinstance(e, ast.Attribute) and isinstance(e.value, ast.Name) and e.value.id == "data_K":
            return {"Dcov": DER, "D_H": DER, "E_K": REAL, "dEig_inv": REAL, "delE_K": DER}.get(e.attr, TOP)
        if isinstance(e, ast.Call):
            cn = call_name(e)
            if cn == "data_K.covariant":
                name = self._str_arg(e.args[0] if e.args else None, params)
                if name is None:
                    return TOP
                nder = 0
                extra = list(e.args[1:])
                for k in e.keywords:
                    if k.arg in ("commader", "gender"):
                        extra.append(k.value)
                for x in extra:
                    if isinstance(x, ast.Constant) and isinstance(x.value, int):
                        nder += x.value
                    else:
                        return TOP
                names = name if isinstance(name, list) else [name]
                gs = {base_grade(n, nder) for n in names}
                return gs.pop() if len(gs) == 1 else TOP
            if cn in ("data_K.Xbar",):
                name = self._str_arg(e.args[0] if e.args else None, params)
                nder = 0
                for x in list(e.args[1:2]) + [k.value for k in e.keywords if k.arg == "der"]:
                    if isinstance(x, ast.Constant):
                        nder = x.value
                    else:
                        return TOP
                if isinstance(name, str):
                    return base_grade(name, nder)
                return TOP
            if cn == "data_K.get_A_H":
                return BASE["AA"]
            if cn == "data_K._R_to_k_H" and e.args and isinstance(e.args[0], ast.Call) and call_name(e.args[0]) == "data_K.get_R_mat":
                nm = self._str_arg(e.args[0].args[0], params)
                return base_grade(nm, 0) if isinstance(nm, str) else TOP
            if cn == "FormulaProduct" and e.args and isinstance(e.args[0], (ast.List, ast.Tuple)):
                g: Grade = REAL
                for el in e.args[0].elts:
                    g = mul(g, val(self.leaf(el, m, params, bound)))
                return g
            if cn == "FormulaSum" and e.args and isinstance(e.args[0], (ast.List, ast.Tuple)):
                gs = [val(self.leaf(el, m, params, bound)) for el in e.args[0].elts]
                self.sum_literals.append((e, gs))
                return gs[0] if len(set(gs)) == 1 else TOP
            if cn == "DeltaProduct" and len(e.args) >= 2:
                return val(self.leaf(e.args[1], m, params, bound))
            # class instantiation
            target = self.idx.resolve_expr(m, e.func)
            if isinstance(e.func, ast.Name) and e.func.id in bound:
                return bound[e.func.id]
            if isinstance(target, ClassInfo):
                if target.name == "Matrix_GenDer_ln" and len(e.args) >= 3:
                    a = self.leaf(e.args[0], m, params, bound)
                    da = self.leaf(e.args[1], m, params, bound)
                    d = self.leaf(e.args[2], m, params, bound)
                    return self.gender_grade(a, da, d)
                return self.class_result(target)  # type: ignore[return-value]
        return TOP

    def gender_grade(self, a: Grade, da: Grade, d: Grade) -> Grade:
        """Matrix_GenDer_ln: dA − D·A + A·D (all terms must agree)."""
        a, da, d = val(a), val(da), val(d, "ln")
        t = mul(d, a)
        if da == t:
            return da
        return TOP

    def _str_arg(self, e: Optional[ast.AST], params: Dict[str, ast.AST]):
        if e is None:
            return None
        if isinstance(e, ast.Constant) and isinstance(e.value, str):
            return e.value
        if isinstance(e, ast.Attribute) and isinstance(e.value, ast.Name) and e.value.id == "self":
            return {"key_OO": ["OO", "rotAA"], "key_FF": ["FF", "rotAAab"], "key_CCab": ["CCab", "CCab_antisym"]}.get(e.attr)
        if isinstance(e, ast.Name) and e.id in params:
            return self._str_arg(params[e.id], params)
        return None

    # ------------------------------------------------------------------ classes
    def class_result(self, c: ClassInfo, bound: Optional[Dict[str, Grade]] = None) -> ClassResult:
        key = (c.fq, tuple(sorted((bound or {}).items(), key=str)))
        if key in self.memo:
            return self.memo[key]
        if key in self._active:
            return ClassResult(c)
        self._active.add(key)
        res = self._infer(c, bound or {})
        self._active.discard(key)
        self.memo[key] = res
        return res

    def _infer(self, c: ClassInfo, bound: Dict[str, Grade]) -> ClassResult:
        res = ClassResult(c)
        tr, inv, node = self.declared(c)
        res.declared, res.declared_node = (tr, inv), node
        name = c.name
        # hand-graded leaves (their bodies only index precomputed arrays)
        fixed = {"Dcov": DER, "DEinv_ln": REAL, "Eavln": REAL, "Identity": REAL}
        if name in fixed:
            res.nn = res.ln = fixed[name]
            return res
        # classes that copy a covariant matrix: Hamiltonian, Velocity, Spin, DerSpin
        ini = None
        owner = None
        for k in self.idx.mro(c):
            if "__init__" in k.methods:
                ini, owner = k.methods["__init__"], k
                break
        env: Dict[str, Grade] = {}
        params: Dict[str, ast.AST] = {}
        chain_bound = dict(bound)
        if ini is not None:
            self._collect_env(c, ini, owner, env, params, chain_bound, res)
        res.env = env
        if "__copy__" in env:
            res.nn = res.ln = env["__copy__"]
            return res
        if "__product__" in env or "__sum__" in env:
            res.nn = env.get("__product__", env.get("__sum__"))
            return res
        jm = [mm for n_, mm in c.methods.items() if n_.startswith("_J_H_")]
        if jm:
            g: Grade = Z
            for mm in jm:
                gm = self._run_body(c, mm, {}, res)
                res.env["method:" + mm.name] = gm
                g = self._join(g, gm, mm, mm.node, res, f"{mm.name} returns {show(gm)}")
            res.nn = res.ln = g
            return res
        for meth in ("nn", "ln"):
            f = self.idx.find_method(c, meth)
            if f is None or _only_raises(f.node):
                continue
            g = self._run_body(c, f, env, res)
            setattr(res, meth, g)
        return res

    def _collect_env(self, c: ClassInfo, ini: FunctionInfo, owner: ClassInfo, env: Dict[str, Grade], params: Dict[str, ast.AST],
                     bound: Dict[str, Grade], res: ClassResult, depth: int = 0) -> None:
        m = ini.module
        a = ini.node.args
        defaults = dict(zip([x.arg for x in a.args[len(a.args) - len(a.defaults):]], a.defaults))
        for k, v in defaults.items():
            params.setdefault(k, v)
        for s in ast.walk(ini.node):
            # super().__init__(…) : bind the parent's constructor parameters
            if isinstance(s, ast.Call) and isinstance(s.func, ast.Attribute) and s.func.attr == "__init__" \
                    and isinstance(s.func.value, ast.Call) and call_name(s.func.value) == "super" and depth < 4:
                parent = None
                mro = self.idx.mro(owner)
                for k in mro[1:]:
                    if "__init__" in k.methods:
                        parent = k
                        break
                if parent is not None:
                    pini = parent.methods["__init__"]
                    pnames = [x.arg for x in pini.node.args.args[1:]]
                    pb = dict(bound)
                    pparams = dict(params)
                    for pn, arg in zip(pnames, s.args):
                        if isinstance(arg, ast.Starred):
                            break
                        t = self.idx.resolve_expr(m, arg) if isinstance(arg, (ast.Name, ast.Attribute)) else None
                        if isinstance(t, ClassInfo):
                            pb[pn] = ("class", t)  # type: ignore[assignment]
                        else:
                            pparams[pn] = arg
                            g = self.leaf(arg, m, params, bound)
                            if isinstance(g, ClassResult) or g != TOP:
                                pb[pn] = g
                    for kw in s.keywords:
                        if kw.arg:
                            pparams[kw.arg] = kw.value
                    if parent.name == "FormulaProduct" and s.args and isinstance(s.args[0], (ast.List, ast.Tuple)):
                        g: Grade = REAL
                        for el in s.args[0].elts:
                            g = mul(g, val(self.leaf(el, m, params, bound)))
                        env["__product__"] = g
                        env["__factors__"] = [val(self.leaf(el, m, params, bound)) for el in s.args[0].elts]  # type: ignore
                        return
                    if parent.name == "FormulaSum" and s.args and isinstance(s.args[0], (ast.List, ast.Tuple)):
                        loc = self._local_leaves(ini, m, params, bound)
                        gs = [val(self.leaf(el, m, params, {**bound, **loc})) for el in s.args[0].elts]
                        self.sum_literals.append((s, gs))
                        env["__terms__"] = gs  # type: ignore
                        env["__sum__"] = gs[0] if len(set(gs)) == 1 else TOP
                        return
                    if parent.name == "Matrix_GenDer_ln" and len(s.args) >= 3:
                        env["A"] = self.leaf(s.args[0], m, params, bound)
                        env["dA"] = self.leaf(s.args[1], m, params, bound)
                        env["D"] = self.leaf(s.args[2], m, params, bound)
                        continue
                    if parent.name in ("Matrix_ln",) and s.args:
                        continue
                    self._collect_env(c, pini, parent, env, pparams, pb, res, depth + 1)
        for s in ast.walk(ini.node):
            if isinstance(s, ast.Assign) and len(s.targets) == 1:
                t = s.targets[0]
                if isinstance(t, ast.Attribute) and isinstance(t.value, ast.Name) and t.value.id == "self":
                    if t.attr in ("ndim", "transformTR", "transformInv", "sign", "axes", "name", "einsumlines"):
                        continue
                    v = s.value
                    # `self.full = full(data_K, **parameters)` with `full` bound to a class by the subclass
                    if isinstance(v, ast.Call) and isinstance(v.func, ast.Name) and isinstance(bound.get(v.func.id), tuple) \
                            and bound[v.func.id][0] == "class":
                        env[t.attr] = self.class_result(bound[v.func.id][1])  # type: ignore[assignment]
                        continue
                    g = self.leaf(v, m, params, {k: x for k, x in bound.items() if not (isinstance(x, tuple) and x and x[0] == "class")})
                    if t.attr not in env or (not isinstance(env[t.attr], ClassResult) and env[t.attr] == TOP):
                        env[t.attr] = g
            # `self.__dict__.update(v.__dict__)` with v = data_K.covariant(...)
            if isinstance(s, ast.Call) and norm(s.func) == "self.__dict__.update" and s.args:
                src = s.args[0]
                if isinstance(src, ast.Attribute) and src.attr == "__dict__" and isinstance(src.value, ast.Name):
                    for d in ast.walk(ini.node):
                        if isinstance(d, ast.Assign) and isinstance(d.targets[0], ast.Name) and d.targets[0].id == src.value.id:
                            env["__copy__"] = val(self.leaf(d.value, m, params, bound))
                            env["__copy_call__"] = d.value  # type: ignore

    def _local_leaves(self, ini: FunctionInfo, m, params, bound) -> Dict[str, Grade]:
        """Local names of a constructor bound to formula objects (term1 = FormulaProduct([...]))."""
        loc: Dict[str, Grade] = {}
        for s in ini.node.body:
            if isinstance(s, ast.Assign) and isinstance(s.targets[0], ast.Name) and isinstance(s.value, ast.Call):
                cn = call_name(s.value)
                if cn == "FormulaProduct" and s.value.args and isinstance(s.value.args[0], (ast.List, ast.Tuple)):
                    g: Grade = REAL
                    for el in s.value.args[0].elts:
                        g = mul(g, val(self.leaf(el, m, params, {**bound, **loc})))
                    loc[s.targets[0].id] = g
                elif cn == "FormulaSum" and s.value.args and isinstance(s.value.args[0], (ast.List, ast.Tuple)):
                    gs = [val(self.leaf(el, m, params, {**bound, **loc})) for el in s.value.args[0].elts]
                    loc[s.targets[0].id] = gs[0] if len(set(gs)) == 1 else TOP
                elif cn == "DeltaProduct" and len(s.value.args) >= 2:
                    loc[s.targets[0].id] = val(self.leaf(s.value.args[1], m, params, {**bound, **loc}))
                else:
                    loc[s.targets[0].id] = val(self.leaf(s.value, m, params, {**bound, **loc}))
        return loc

    # ------------------------------------------------------------------ method bodies
    def _run_body(self, c: ClassInfo, f: FunctionInfo, env: Dict[str, Grade], res: ClassResult) -> Grade:
        loc: Dict[str, Grade] = {}
        ret: List[Grade] = []
        self._block(f.node.body, f, env, loc, res, ret)
        if not ret:
            return TOP
        out = ret[0]
        for r in ret[1:]:
            out = self._join(out, r, f, f.node, res, "return")
        return out

    def _join(self, a: Grade, b: Grade, f, node, res: ClassResult, text: str) -> Grade:
        if a == Z:
            return b
        if b == Z:
            return a
        if a == TOP or b == TOP:
            return TOP
        if a != b:
            res.conflicts.append(Conflict(f.short, node, a, b, text))
            return TOP
        return a

    def _block(self, body, f, env, loc, res, ret) -> None:
        for s in body:
            if isinstance(s, ast.Expr) and isinstance(s.value, ast.Constant):
                continue
            if isinstance(s, ast.Pass):
                continue
            if isinstance(s, ast.Assign) and len(s.targets) == 1 and isinstance(s.targets[0], ast.Name):
                loc[s.targets[0].id] = self.expr(s.value, f, env, loc, res)
            elif isinstance(s, ast.AugAssign) and isinstance(s.target, ast.Name):
                cur = loc.get(s.target.id, TOP)
                v = self.expr(s.value, f, env, loc, res)
                if isinstance(s.op, (ast.Add, ast.Sub)):
                    res.terms += 1
                    loc[s.target.id] = self._join(cur, v, f, s, res, norm1(s, 140))
                elif isinstance(s.op, (ast.Mult, ast.Div)):
                    loc[s.target.id] = mul(cur, v)
                else:
                    loc[s.target.id] = TOP
            elif isinstance(s, ast.If):
                self._block(s.body, f, env, loc, res, ret)
                self._block(s.orelse, f, env, loc, res, ret)
            elif isinstance(s, ast.For):
                for t in ast.walk(s.target):
                    if isinstance(t, ast.Name):
                        loc[t.id] = REAL
                self._block(s.body, f, env, loc, res, ret)
            elif isinstance(s, ast.Return):
                if s.value is not None:
                    ret.append(self.expr(s.value, f, env, loc, res))
            elif isinstance(s, ast.Raise):
                continue
            elif isinstance(s, ast.Expr) and isinstance(s.value, ast.Call) and call_name(s.value) == "_spin_velocity_einsum_opt":
                a = s.value.args
                if isinstance(a[0], ast.Name):
                    term = mul(self.expr(a[1], f, env, loc, res), self.expr(a[2], f, env, loc, res))
                    res.terms += 1
                    loc[a[0].id] = self._join(loc.get(a[0].id, TOP), term, f, s, res, norm1(s, 140))
            elif isinstance(s, ast.Expr) and isinstance(s.value, ast.Call) and call_name(s.value) in ("print",):
                continue
            elif isinstance(s, (ast.Assert,)):
                continue
            elif isinstance(s, ast.Assign):
                # attribute / tuple targets inside array-code constructors
                for t in s.targets:
                    if isinstance(t, ast.Attribute) and isinstance(t.value, ast.Name) and t.value.id == "self":
                        loc["self." + t.attr] = self.expr(s.value, f, env, loc, res)
                    elif isinstance(t, ast.Tuple):
                        for x in t.elts:
                            if isinstance(x, ast.Name):
                                loc[x.id] = REAL
            else:
                res.unknown.append(f"{f.short}: statement `{norm1(s, 80)}`")

    def _helper_call(self, e: ast.Call, f, env, loc, res, _depth=[0]) -> Optional[Grade]:
        fn = e.func
        name = fn.id if isinstance(fn, ast.Name) else fn.attr if isinstance(fn, ast.Attribute) and isinstance(fn.value, ast.Name) and fn.value.id in ("self", "cls") else None
        if name is None or not name.startswith("_") or (name.startswith("__") and name.endswith("__")) or _depth[0] >= 2:
            return None
        g = None
        if isinstance(fn, ast.Name):
            g = f.module.functions.get(name)
        elif getattr(f, "cls", None) is not None:
            g = self.idx.find_method(f.cls, name)
        if g is None:
            return None
        params = list(g.params)
        if isinstance(fn, ast.Attribute) and params and params[0] in ("self", "cls"):
            params = params[1:]
        if any(isinstance(a, ast.Starred) for a in e.args) or any(k.arg is None for k in e.keywords) or len(e.args) > len(params):
            return None
        hloc: Dict[str, Grade] = {}
        for p_, a in zip(params, e.args):
            hloc[p_] = self.expr(a, f, env, loc, res)
        for k in e.keywords:
            hloc[k.arg] = self.expr(k.value, f, env, loc, res)
        ret: List[Grade] = []
        _depth[0] += 1
        try:
            self._block(g.node.body, g, env, hloc, res, ret)
        finally:
            _depth[0] -= 1
        if not ret:
            return TOP
        out = ret[0]
        for r in ret[1:]:
            out = self._join(out, r, g, g.node, res, "return")
        return out

    def expr(self, e: ast.AST, f, env, loc, res) -> Grade:
        if isinstance(e, ast.Constant):
            v = e.value
            if isinstance(v, complex):
                if v.real == 0:
                    return IMAG
                return TOP
            if isinstance(v, (int, float)):
                return REAL
            return TOP
        if isinstance(e, ast.Name):
            if e.id in loc:
                return loc[e.id]
            if e.id in ("alpha_A", "beta_A", "ik", "inn", "out", "sc_eta"):
                return REAL
            return TOP
        if isinstance(e, ast.UnaryOp):
            return self.expr(e.operand, f, env, loc, res)
        if isinstance(e, ast.BinOp):
            a = self.expr(e.left, f, env, loc, res)
            b = self.expr(e.right, f, env, loc, res)
            if isinstance(e.op, (ast.Mult, ast.Div, ast.MatMult)):
                return mul(a, b)
            if isinstance(e.op, ast.Pow):
                if isinstance(e.right, ast.Constant) and isinstance(e.right.value, int):
                    return gpow(a, e.right.value) if e.right.value % 2 else mul(a, a)
                return TOP
            if isinstance(e.op, (ast.Add, ast.Sub)):
                res.terms += 1
                return self._join(a, b, f, e, res, norm1(e, 140))
            return TOP
        if isinstance(e, ast.Subscript):
            return self.expr(e.value, f, env, loc, res)
        if isinstance(e, ast.Tuple):
            return REAL
        if isinstance(e, ast.Attribute):
            if e.attr in ("imag",):
                return flip_t(self.expr(e.value, f, env, loc, res))
            if e.attr in ("real", "T", "matrix"):
                return self.expr(e.value, f, env, loc, res)
            if isinstance(e.value, ast.Name) and e.value.id == "self":
                if "self." + e.attr in loc:
                    return loc["self." + e.attr]
                if e.attr in env:
                    return val(env[e.attr])
                if e.attr in ("sign",):
                    return REAL
                res.unknown.append(f"{f.short}: self.{e.attr}")
                return TOP
            if isinstance(e.value, ast.Name) and e.value.id == "data_K":
                return self.leaf(e, f.module, {}, {})
            if dotted(e) in ("np.newaxis", "np.pi"):
                return REAL
            return TOP
        if isinstance(e, ast.Call):
            cn = call_name(e)
            if cn in ("cached_einsum", "np.einsum"):
                g: Grade = REAL
                for a in e.args[1:]:
                    g = mul(g, self.expr(a, f, env, loc, res))
                return g
            if cn in ("np.zeros", "np.zeros_like"):
                return Z
            if cn in ("np.eye",):
                return REAL
            if cn in ("np.array", "np.copy", "np.conj", "np.real", "np.swapaxes", "np.transpose", "np.reshape"):
                return self.expr(e.args[0], f, env, loc, res)
            if cn in ("np.imag",):
                return flip_t(self.expr(e.args[0], f, env, loc, res))
            if cn in ("len",):
                return REAL
            if isinstance(e.func, ast.Attribute):
                # self.X.nn(ik, inn, out) etc.
                if e.func.attr in ("nn", "ln", "nl", "ll") and isinstance(e.func.value, ast.Attribute) \
                        and isinstance(e.func.value.value, ast.Name) and e.func.value.value.id == "self":
                    a = e.func.value.attr
                    if a in env:
                        return val(env[a], e.func.attr)
                    res.unknown.append(f"{f.short}: self.{a}.{e.func.attr}")
                    return TOP
                if e.func.attr in ("conj", "conjugate", "swapaxes", "transpose", "copy", "reshape", "sum", "astype"):
                    return self.expr(e.func.value, f, env, loc, res)
                if isinstance(e.func.value, ast.Name) and e.func.value.id == "data_K":
                    return self.leaf(e, f.module, {}, {})
                if isinstance(e.func.value, ast.Name) and e.func.value.id == "self" and e.func.attr.startswith("_J_H"):
                    return TOP
            # private helper of the same class / module: interpret its body with the argument grades bound to its parameters
            hg = self._helper_call(e, f, env, loc, res)
            if hg is not None:
                return hg
            # class instantiation inside array code: Velocity(data_K, …).matrix
            t = self.idx.resolve_expr(f.module, e.func)
            if isinstance(t, ClassInfo):
                return val(self.class_result(t))
            res.unknown.append(f"{f.short}: call `{norm1(e, 60)}`")
            return TOP
        res.unknown.append(f"{f.short}: expression `{norm1(e, 60)}`")
        return TOP

    # ------------------------------------------------------------------ array-code constructors (dynamic formulas)
    def array_attr_grade(self, c: ClassInfo, attr: str, meth: str = "__init__") -> ClassResult:
        res = ClassResult(c)
        tr, inv, node = self.declared(c)
        res.declared, res.declared_node = (tr, inv), node
        f = c.methods.get(meth)
        if f is None:
            return res
        loc: Dict[str, Grade] = {}
        ret: List[Grade] = []
        self._block(f.node.body, f, {}, loc, res, ret)
        res.nn = loc.get("self." + attr, ret[0] if ret else TOP)
        return res


def _only_raises(fn: ast.AST) -> bool:
    body = [s for s in fn.body if not (isinstance(s, ast.Expr) and isinstance(s.value, ast.Constant))]
    return bool(body) and all(isinstance(s, ast.Raise) for s in body)
