"""E0 — package index: modules, imports, classes (with MRO), functions, attribute stores, call resolution.

Everything is computed from the syntax trees of the working tree on every run.
"""
from __future__ import annotations

import ast
import hashlib
import os
from dataclasses import dataclass, field
from typing import Dict, Iterable, Iterator, List, Optional, Set, Tuple


class AnalysisError(Exception):
    """The analysis cannot decide (anchor vanished, unknown construct, instance count too low).

    Mapped to exit code 2 — never a silent pass and never a VIOLATION."""


def repo_root() -> str:
    return os.environ.get("WBSTATIC_REPO", "/repo")


PKG = "wannierberri"


def norm(node: ast.AST) -> str:
    """Normalised text of a syntax node (formatting / comments / line numbers removed)."""
    try:
        return ast.unparse(node)
    except Exception:  # pragma: no cover
        return ast.dump(node)


def norm1(node: ast.AST, limit: int = 160) -> str:
    s = " ".join(norm(node).split())
    return s if len(s) <= limit else s[: limit - 3] + "..."


@dataclass
class ModuleInfo:
    name: str            # dotted, e.g. wannierberri.grid.Kpoint
    path: str            # absolute
    relpath: str         # relative to repo root
    source: str
    sha1: str
    tree: ast.Module
    imports: Dict[str, Tuple[str, Optional[str]]] = field(default_factory=dict)
    # local name -> (module dotted name, attribute or None for `import x as y`)
    functions: Dict[str, "FunctionInfo"] = field(default_factory=dict)
    classes: Dict[str, "ClassInfo"] = field(default_factory=dict)
    assigns: Dict[str, List[ast.AST]] = field(default_factory=dict)  # module-level name -> value nodes


@dataclass
class FunctionInfo:
    name: str
    qualname: str        # module-relative: "process" or "Data_K.UU_K"
    module: ModuleInfo
    node: ast.FunctionDef
    cls: Optional["ClassInfo"] = None
    decorators: List[str] = field(default_factory=list)

    @property
    def fq(self) -> str:
        return f"{self.module.name}:{self.qualname}"

    @property
    def short(self) -> str:
        return f"{self.module.relpath}:{self.qualname}"

    @property
    def params(self) -> List[str]:
        a = self.node.args
        names = [x.arg for x in a.posonlyargs + a.args]
        if a.vararg:
            names.append(a.vararg.arg)
        names += [x.arg for x in a.kwonlyargs]
        if a.kwarg:
            names.append(a.kwarg.arg)
        return names

    @property
    def is_property(self) -> bool:
        return any(d in ("property", "cached_property", "functools.cached_property", "lazy_property.LazyProperty",
                         "LazyProperty", "cached_property.cached_property")
                   or d.endswith(".setter") or d.endswith("cached_property") for d in self.decorators)


@dataclass
class ClassInfo:
    name: str
    module: ModuleInfo
    node: ast.ClassDef
    base_exprs: List[ast.expr] = field(default_factory=list)
    bases: List["ClassInfo"] = field(default_factory=list)         # resolved in-package bases
    unresolved_bases: List[str] = field(default_factory=list)
    methods: Dict[str, FunctionInfo] = field(default_factory=dict)
    class_attrs: Dict[str, ast.AST] = field(default_factory=dict)  # name -> value node
    self_stores: Dict[str, List[Tuple[FunctionInfo, ast.AST]]] = field(default_factory=dict)
    dynamic_setattr: List[Tuple[FunctionInfo, ast.AST]] = field(default_factory=list)

    @property
    def fq(self) -> str:
        return f"{self.module.name}:{self.name}"


def _decorator_name(d: ast.expr) -> str:
    if isinstance(d, ast.Call):
        d = d.func
    return norm(d)


_MODCACHE: Dict[Tuple[str, str], ModuleInfo] = {}


class Index:
    """Parses every `wannierberri/**/*.py` of the working tree."""

    def __init__(self, root: Optional[str] = None, files: Optional[Iterable[str]] = None):
        self.root = os.path.abspath(root or repo_root())
        self.modules: Dict[str, ModuleInfo] = {}
        self.by_rel: Dict[str, ModuleInfo] = {}
        self.classes_by_name: Dict[str, List[ClassInfo]] = {}
        self.consulted: Set[str] = set()
        pkgdir = os.path.join(self.root, PKG)
        if not os.path.isdir(pkgdir):
            raise AnalysisError(f"package directory not found: {pkgdir}")
        paths = []
        for dp, dn, fn in os.walk(pkgdir):
            dn[:] = sorted(d for d in dn if d != "__pycache__")
            for f in sorted(fn):
                if f.endswith(".py"):
                    paths.append(os.path.join(dp, f))
        fresh = [m for m in (self._load(p) for p in paths) if m is not None]
        for m in fresh:
            self._collect(m)
        for m in self.modules.values():
            for c in m.classes.values():
                self._resolve_bases(c)
        self._mro_cache: Dict[str, List[ClassInfo]] = {}

    # ------------------------------------------------------------------ loading
    def _load(self, path: str) -> Optional[ModuleInfo]:
        """Parse one file; returns the ModuleInfo if it still has to be collected (None: taken from the
        per-process cache keyed by (relative path, content digest) — used by the self-test, whose scratch
        trees differ from the working tree in one or two files)."""
        rel = os.path.relpath(path, self.root)
        with open(path, "rb") as f:
            raw = f.read()
        key = (rel, hashlib.sha1(raw).hexdigest())
        hit = _MODCACHE.get(key)
        if hit is not None:
            for c in hit.classes.values():
                c.bases, c.unresolved_bases = [], []
            self.modules[hit.name] = hit
            self.by_rel[rel] = hit
            for c in hit.classes.values():
                self.classes_by_name.setdefault(c.name, []).append(c)
            return None
        try:
            src = raw.decode("utf-8")
            tree = ast.parse(src, filename=path)
        except SyntaxError as e:
            raise AnalysisError(f"cannot parse {rel}: {e}")
        parts = rel[:-3].split(os.sep)
        if parts[-1] == "__init__":
            parts = parts[:-1]
        name = ".".join(parts)
        mi = ModuleInfo(name=name, path=path, relpath=rel, source=src,
                        sha1=hashlib.sha1(raw).hexdigest(), tree=tree)
        mi.is_pkg = rel.endswith("__init__.py")  # type: ignore[attr-defined]
        self.modules[name] = mi
        self.by_rel[rel] = mi
        _MODCACHE[key] = mi
        return mi

    def _abs_module(self, m: ModuleInfo, level: int, module: Optional[str]) -> str:
        if level == 0:
            return module or ""
        parts = m.name.split(".")
        if not getattr(m, "is_pkg", False):
            parts = parts[:-1]
        if level > 1:
            parts = parts[: len(parts) - (level - 1)]
        if module:
            parts = parts + module.split(".")
        return ".".join(parts)

    def _collect(self, m: ModuleInfo) -> None:
        for node in ast.walk(m.tree):
            if isinstance(node, ast.Import):
                for a in node.names:
                    m.imports[(a.asname or a.name).split(".")[0] if not a.asname else a.asname] = (a.name, None)
            elif isinstance(node, ast.ImportFrom):
                mod = self._abs_module(m, node.level, node.module)
                for a in node.names:
                    m.imports[a.asname or a.name] = (mod, a.name)
        for node in m.tree.body:
            self._collect_stmt(m, node)

    def _collect_stmt(self, m: ModuleInfo, node: ast.stmt) -> None:
        if isinstance(node, (ast.FunctionDef, ast.AsyncFunctionDef)):
            fi = FunctionInfo(node.name, node.name, m, node, None, [_decorator_name(d) for d in node.decorator_list])
            m.functions[node.name] = fi
        elif isinstance(node, ast.ClassDef):
            ci = ClassInfo(node.name, m, node, list(node.bases))
            m.classes[node.name] = ci
            self.classes_by_name.setdefault(node.name, []).append(ci)
            for st in node.body:
                if isinstance(st, (ast.FunctionDef, ast.AsyncFunctionDef)):
                    fi = FunctionInfo(st.name, f"{node.name}.{st.name}", m, st, ci,
                                      [_decorator_name(d) for d in st.decorator_list])
                    # keep getter if both getter and setter exist
                    if st.name in ci.methods and any(d.endswith(".setter") for d in fi.decorators):
                        ci.methods.setdefault(st.name + ".setter", fi)
                    else:
                        ci.methods[st.name] = fi
                elif isinstance(st, ast.Assign):
                    for t in st.targets:
                        for n in _target_names(t):
                            ci.class_attrs[n] = st.value
                elif isinstance(st, ast.AnnAssign) and isinstance(st.target, ast.Name):
                    ci.class_attrs[st.target.id] = st.value if st.value is not None else st.annotation
            for fi in list(ci.methods.values()):
                self._collect_self_stores(ci, fi)
        elif isinstance(node, ast.Assign):
            for t in node.targets:
                for n in _target_names(t):
                    m.assigns.setdefault(n, []).append(node.value)
        elif isinstance(node, ast.AnnAssign) and isinstance(node.target, ast.Name) and node.value is not None:
            m.assigns.setdefault(node.target.id, []).append(node.value)
        elif isinstance(node, (ast.If, ast.Try)):
            for sub in ast.iter_child_nodes(node):
                if isinstance(sub, ast.stmt):
                    self._collect_stmt(m, sub)
            if isinstance(node, ast.Try):
                for h in node.handlers:
                    for sub in h.body:
                        self._collect_stmt(m, sub)

    def _collect_self_stores(self, ci: ClassInfo, fi: FunctionInfo) -> None:
        args = fi.node.args.posonlyargs + fi.node.args.args
        if not args or "staticmethod" in fi.decorators:
            return
        selfname = args[0].arg
        if "classmethod" in fi.decorators:
            return
        for node in ast.walk(fi.node):
            targets: List[ast.AST] = []
            if isinstance(node, ast.Assign):
                targets = list(node.targets)
            elif isinstance(node, (ast.AugAssign, ast.AnnAssign)):
                targets = [node.target]
            elif isinstance(node, (ast.For, ast.AsyncFor)):
                targets = [node.target]
            elif isinstance(node, ast.With):
                targets = [i.optional_vars for i in node.items if i.optional_vars is not None]
            elif isinstance(node, ast.Call):
                f = node.func
                if isinstance(f, ast.Name) and f.id == "setattr" and len(node.args) >= 2 \
                        and isinstance(node.args[0], ast.Name) and node.args[0].id == selfname:
                    if isinstance(node.args[1], ast.Constant) and isinstance(node.args[1].value, str):
                        ci.self_stores.setdefault(node.args[1].value, []).append((fi, node))
                    else:
                        ci.dynamic_setattr.append((fi, node))
                elif isinstance(f, ast.Attribute) and f.attr == "update" and isinstance(f.value, ast.Attribute) \
                        and f.value.attr == "__dict__" and isinstance(f.value.value, ast.Name) \
                        and f.value.value.id == selfname:
                    ci.dynamic_setattr.append((fi, node))
            for t in targets:
                for sub in _flatten_targets(t):
                    if isinstance(sub, ast.Attribute) and isinstance(sub.value, ast.Name) and sub.value.id == selfname:
                        ci.self_stores.setdefault(sub.attr, []).append((fi, node))

    # ------------------------------------------------------------------ resolution
    def resolve_name(self, m: ModuleInfo, name: str, _depth: int = 0):
        """Resolve a bare name used in module `m` to a ClassInfo / FunctionInfo / ModuleInfo / None."""
        if _depth > 8:
            return None
        if name in m.classes:
            return m.classes[name]
        if name in m.functions:
            return m.functions[name]
        if name in m.imports:
            mod, attr = m.imports[name]
            if attr is None:
                return self.modules.get(mod)
            target = self.modules.get(mod)
            if target is None:
                return None
            sub = self.modules.get(f"{mod}.{attr}")
            r = self.resolve_name(target, attr, _depth + 1)
            if r is not None:
                return r
            return sub
        return None

    def resolve_expr(self, m: ModuleInfo, e: ast.expr):
        """Resolve Name / dotted Attribute to an in-package definition, or None."""
        if isinstance(e, ast.Name):
            return self.resolve_name(m, e.id)
        if isinstance(e, ast.Attribute):
            base = self.resolve_expr(m, e.value)
            if isinstance(base, ModuleInfo):
                r = self.resolve_name(base, e.attr)
                if r is not None:
                    return r
                return self.modules.get(f"{base.name}.{e.attr}")
            if isinstance(base, ClassInfo):
                return self.find_method(base, e.attr)
        return None

    def _resolve_bases(self, c: ClassInfo) -> None:
        for b in c.base_exprs:
            r = self.resolve_expr(c.module, b)
            if isinstance(r, ClassInfo):
                c.bases.append(r)
            else:
                c.unresolved_bases.append(norm(b))

    def mro(self, c: ClassInfo) -> List[ClassInfo]:
        key = c.fq
        if key in self._mro_cache:
            return self._mro_cache[key]
        seqs = [self.mro(b)[:] for b in c.bases] + [c.bases[:]]
        res = [c]
        seqs = [s for s in seqs if s]
        while seqs:
            for s in seqs:
                cand = s[0]
                if not any(cand in t[1:] for t in seqs):
                    break
            else:  # inconsistent hierarchy: fall back to DFS order
                cand = seqs[0][0]
            res.append(cand)
            seqs = [[x for x in s if x is not cand] for s in seqs]
            seqs = [s for s in seqs if s]
        self._mro_cache[key] = res
        return res

    def subclasses(self, c: ClassInfo, strict: bool = False) -> List[ClassInfo]:
        out = []
        for m in self.modules.values():
            for k in m.classes.values():
                if c in self.mro(k) and not (strict and k is c):
                    out.append(k)
        return out

    def find_method(self, c: ClassInfo, name: str) -> Optional[FunctionInfo]:
        for k in self.mro(c):
            if name in k.methods:
                return k.methods[name]
        return None

    def attr_defined(self, c: ClassInfo, name: str, include_subclasses: bool = True) -> Optional[str]:
        """Where attribute `name` of instances of `c` can come from (or None)."""
        fam = list(self.mro(c))
        if include_subclasses:
            for s in self.subclasses(c, strict=True):
                for k in self.mro(s):
                    if k not in fam:
                        fam.append(k)
        for k in fam:
            if name in k.methods:
                return f"method {k.name}.{name}"
            if name in k.class_attrs:
                return f"class attribute {k.name}.{name}"
            if name in k.self_stores:
                fi = k.self_stores[name][0][0]
                return f"stored in {k.name}.{fi.name}"
        return None

    def has_dynamic_attrs(self, c: ClassInfo) -> List[str]:
        out = []
        for k in self.mro(c):
            for fi, node in k.dynamic_setattr:
                out.append(f"{k.name}.{fi.name}: {norm1(node, 80)}")
            if "__getattr__" in k.methods:
                out.append(f"{k.name}.__getattr__")
        return out

    # ------------------------------------------------------------------ lookup helpers (fail closed)
    def module(self, rel: str) -> ModuleInfo:
        m = self.by_rel.get(rel) or self.by_rel.get(os.path.join(PKG, rel))
        if m is None:
            raise AnalysisError(f"anchor module missing: {rel}")
        self.consulted.add(m.relpath)
        return m

    def function(self, rel: str, qualname: str) -> FunctionInfo:
        m = self.module(rel)
        if "." in qualname:
            cn, fn = qualname.split(".", 1)
            c = m.classes.get(cn)
            if c is None:
                raise AnalysisError(f"anchor class missing: {rel}:{cn}")
            f = c.methods.get(fn)
            if f is None:
                raise AnalysisError(f"anchor method missing: {rel}:{qualname}")
            return f
        f = m.functions.get(qualname)
        if f is None:
            raise AnalysisError(f"anchor function missing: {rel}:{qualname}")
        return f

    def try_function(self, rel: str, qualname: str) -> Optional[FunctionInfo]:
        try:
            return self.function(rel, qualname)
        except AnalysisError:
            return None

    def cls(self, rel: str, name: str) -> ClassInfo:
        m = self.module(rel)
        c = m.classes.get(name)
        if c is None:
            raise AnalysisError(f"anchor class missing: {rel}:{name}")
        return c

    def all_functions(self) -> Iterator[FunctionInfo]:
        for m in self.modules.values():
            yield from m.functions.values()
            for c in m.classes.values():
                yield from c.methods.values()

    def all_classes(self) -> Iterator[ClassInfo]:
        for m in self.modules.values():
            yield from m.classes.values()

    def consulted_files(self) -> Dict[str, str]:
        return {r: self.by_rel[r].sha1 for r in sorted(self.consulted)}


def _target_names(t: ast.AST) -> List[str]:
    return [x.id for x in _flatten_targets(t) if isinstance(x, ast.Name)]


def _flatten_targets(t: ast.AST) -> List[ast.AST]:
    if isinstance(t, (ast.Tuple, ast.List)):
        out: List[ast.AST] = []
        for e in t.elts:
            out += _flatten_targets(e)
        return out
    if isinstance(t, ast.Starred):
        return _flatten_targets(t.value)
    return [t]


# ---------------------------------------------------------------------- small AST helpers used by all rules

def walk_no_nested(node: ast.AST, include_self: bool = True) -> Iterator[ast.AST]:
    """ast.walk that does not descend into nested function / class / lambda definitions."""
    stack = [node]
    first = True
    while stack:
        n = stack.pop()
        if not first and isinstance(n, (ast.FunctionDef, ast.AsyncFunctionDef, ast.ClassDef, ast.Lambda)):
            continue
        if include_self or not first:
            yield n
        first = False
        stack.extend(reversed(list(ast.iter_child_nodes(n))))


def calls_in(node: ast.AST) -> List[ast.Call]:
    return [n for n in ast.walk(node) if isinstance(n, ast.Call)]


def call_name(c: ast.Call) -> str:
    """Dotted name of the callee, e.g. 'np.zeros', 'self.rvec.R_to_k', 'glob.glob' ('' if not a name chain)."""
    return dotted(c.func)


def dotted(e: ast.AST) -> str:
    parts = []
    while isinstance(e, ast.Attribute):
        parts.append(e.attr)
        e = e.value
    if isinstance(e, ast.Name):
        parts.append(e.id)
        return ".".join(reversed(parts))
    if isinstance(e, ast.Call):
        inner = dotted(e.func)
        if inner:
            parts.append(inner + "()")
            return ".".join(reversed(parts))
    if isinstance(e, ast.Subscript):
        inner = dotted(e.value)
        if inner:
            parts.append(inner + "[]")
            return ".".join(reversed(parts))
    return ""


def names_in(e: ast.AST) -> Set[str]:
    return {n.id for n in ast.walk(e) if isinstance(n, ast.Name)}


def const_value(e: ast.AST):
    """Python value of a literal expression (numbers, strings, tuples/lists of them, unary minus)."""
    try:
        return ast.literal_eval(e)
    except Exception:
        raise ValueError(norm(e))


def kwarg(c: ast.Call, name: str, pos: Optional[int] = None) -> Optional[ast.expr]:
    for k in c.keywords:
        if k.arg == name:
            return k.value
    if pos is not None and pos < len(c.args) and not any(isinstance(a, ast.Starred) for a in c.args[: pos + 1]):
        return c.args[pos]
    return None


def parent_map(root: ast.AST) -> Dict[ast.AST, ast.AST]:
    pm: Dict[ast.AST, ast.AST] = {}
    for n in ast.walk(root):
        for ch in ast.iter_child_nodes(n):
            pm[ch] = n
    return pm


def enclosing_stmt(pm: Dict[ast.AST, ast.AST], n: ast.AST) -> ast.stmt:
    while not isinstance(n, ast.stmt):
        n = pm[n]
    return n
