"""E3 — exact multivariate polynomials / rational functions over Fraction and an AST→rational translator.

Pure syntax manipulation (normal forms); nothing from /repo is executed.
"""
from __future__ import annotations

import ast
from fractions import Fraction
from typing import Callable, Dict, Iterable, List, Optional, Tuple, Union

from .index import AnalysisError, norm1

Mono = Tuple[Tuple[str, int], ...]


class Poly:
    __slots__ = ("t",)

    def __init__(self, terms: Optional[Dict[Mono, Fraction]] = None):
        self.t: Dict[Mono, Fraction] = {m: c for m, c in (terms or {}).items() if c != 0}

    # ---- constructors
    @staticmethod
    def const(c) -> "Poly":
        return Poly({(): Fraction(c)})

    @staticmethod
    def sym(name: str) -> "Poly":
        return Poly({((name, 1),): Fraction(1)})

    # ---- arithmetic
    def __add__(self, o: "Poly") -> "Poly":
        r = dict(self.t)
        for m, c in o.t.items():
            r[m] = r.get(m, Fraction(0)) + c
        return Poly(r)

    def __neg__(self) -> "Poly":
        return Poly({m: -c for m, c in self.t.items()})

    def __sub__(self, o: "Poly") -> "Poly":
        return self + (-o)

    def __mul__(self, o: "Poly") -> "Poly":
        r: Dict[Mono, Fraction] = {}
        for m1, c1 in self.t.items():
            for m2, c2 in o.t.items():
                d = dict(m1)
                for s, p in m2:
                    d[s] = d.get(s, 0) + p
                m = tuple(sorted((s, p) for s, p in d.items() if p))
                r[m] = r.get(m, Fraction(0)) + c1 * c2
        return Poly(r)

    def __pow__(self, n: int) -> "Poly":
        if n < 0:
            raise ValueError("negative power of a polynomial")
        r = Poly.const(1)
        for _ in range(n):
            r = r * self
        return r

    def is_zero(self) -> bool:
        return not self.t

    def __eq__(self, o) -> bool:  # type: ignore[override]
        return isinstance(o, Poly) and self.t == o.t

    def __hash__(self):
        return hash(tuple(sorted(self.t.items())))

    def symbols(self) -> List[str]:
        return sorted({s for m in self.t for s, _ in m})

    def degree(self, sym: str) -> int:
        return max((dict(m).get(sym, 0) for m in self.t), default=0)

    def coeff(self, sym: str, k: int) -> "Poly":
        """Coefficient polynomial of sym**k."""
        r: Dict[Mono, Fraction] = {}
        for m, c in self.t.items():
            d = dict(m)
            if d.get(sym, 0) == k:
                d.pop(sym, None)
                r[tuple(sorted(d.items()))] = r.get(tuple(sorted(d.items())), Fraction(0)) + c
        return Poly(r)

    def diff(self, sym: str) -> "Poly":
        r: Dict[Mono, Fraction] = {}
        for m, c in self.t.items():
            d = dict(m)
            p = d.get(sym, 0)
            if p == 0:
                continue
            if p == 1:
                d.pop(sym)
            else:
                d[sym] = p - 1
            mm = tuple(sorted(d.items()))
            r[mm] = r.get(mm, Fraction(0)) + c * p
        return Poly(r)

    def subs(self, mapping: Dict[str, "Poly"]) -> "Poly":
        r = Poly()
        for m, c in self.t.items():
            term = Poly.const(c)
            for s, p in m:
                term = term * ((mapping[s] if s in mapping else Poly.sym(s)) ** p)
            r = r + term
        return r

    def as_const(self) -> Optional[Fraction]:
        if not self.t:
            return Fraction(0)
        if len(self.t) == 1 and () in self.t:
            return self.t[()]
        return None

    def __repr__(self) -> str:
        if not self.t:
            return "0"
        parts = []
        for m, c in sorted(self.t.items()):
            mon = "*".join(f"{s}^{p}" if p != 1 else s for s, p in m)
            parts.append(f"{c}" + (f"*{mon}" if mon else ""))
        return " + ".join(parts)


class Rat:
    """num/den with polynomial numerator and denominator (no cancellation; equality by cross-multiplication)."""
    __slots__ = ("n", "d")

    def __init__(self, n: Poly, d: Optional[Poly] = None):
        self.n = n
        self.d = d if d is not None else Poly.const(1)
        if self.d.is_zero():
            raise ZeroDivisionError("zero denominator")

    @staticmethod
    def const(c) -> "Rat":
        return Rat(Poly.const(c))

    @staticmethod
    def sym(s: str) -> "Rat":
        return Rat(Poly.sym(s))

    def __add__(self, o: "Rat") -> "Rat":
        if self.d == o.d:
            return Rat(self.n + o.n, self.d)
        return Rat(self.n * o.d + o.n * self.d, self.d * o.d)

    def __neg__(self) -> "Rat":
        return Rat(-self.n, self.d)

    def __sub__(self, o: "Rat") -> "Rat":
        return self + (-o)

    def __mul__(self, o: "Rat") -> "Rat":
        return Rat(self.n * o.n, self.d * o.d)

    def __truediv__(self, o: "Rat") -> "Rat":
        if o.n.is_zero():
            raise ZeroDivisionError("division by zero polynomial")
        return Rat(self.n * o.d, self.d * o.n)

    def __pow__(self, k: int) -> "Rat":
        if k >= 0:
            return Rat(self.n ** k, self.d ** k)
        return Rat(self.d ** (-k), self.n ** (-k))

    def equals(self, o: "Rat") -> bool:
        return (self.n * o.d - o.n * self.d).is_zero()

    def is_zero(self) -> bool:
        return self.n.is_zero()

    def diff(self, sym: str) -> "Rat":
        # (n/d)' = (n' d − n d') / d²
        return Rat(self.n.diff(sym) * self.d - self.n * self.d.diff(sym), self.d * self.d)

    def subs(self, mapping: Dict[str, "Rat"]) -> "Rat":
        def sub_poly(p: Poly) -> Rat:
            r = Rat.const(0)
            for m, c in p.t.items():
                term = Rat.const(c)
                for s, k in m:
                    term = term * ((mapping[s] if s in mapping else Rat.sym(s)) ** k)
                r = r + term
            return r
        return sub_poly(self.n) / sub_poly(self.d)

    def as_poly(self) -> Optional[Poly]:
        c = self.d.as_const()
        if c is None:
            return None
        return self.n * Poly.const(Fraction(1) / c)

    def __repr__(self) -> str:
        return f"({self.n})/({self.d})" if self.d.as_const() != 1 else repr(self.n)


Env = Callable[[ast.AST], Optional[Rat]]


def to_rat(e: ast.AST, env: Env) -> Rat:
    """Translate an arithmetic expression to a rational function.

    `env(node)` is asked first for every node (names, attributes, calls, subscripts) and may return a Rat
    (e.g. a symbol, or the translated definition of a local temporary); returning None lets the
    translator handle numeric constants and + - * / ** (int) itself; anything else is an AnalysisError."""
    r = env(e)
    if r is not None:
        return r
    if isinstance(e, ast.Constant):
        v = e.value
        if isinstance(v, bool) or not isinstance(v, (int, float)):
            raise AnalysisError(f"non-numeric constant in arithmetic: {norm1(e)}")
        return Rat.const(Fraction(v) if isinstance(v, int) else Fraction(str(v)))
    if isinstance(e, ast.UnaryOp):
        if isinstance(e.op, ast.USub):
            return -to_rat(e.operand, env)
        if isinstance(e.op, ast.UAdd):
            return to_rat(e.operand, env)
    if isinstance(e, ast.BinOp):
        if isinstance(e.op, ast.Pow):
            base = to_rat(e.left, env)
            ex = to_rat(e.right, env).as_poly()
            c = ex.as_const() if ex is not None else None
            if c is None or c.denominator != 1:
                raise AnalysisError(f"non-integer exponent: {norm1(e)}")
            return base ** int(c)
        a, b = to_rat(e.left, env), to_rat(e.right, env)
        if isinstance(e.op, ast.Add):
            return a + b
        if isinstance(e.op, ast.Sub):
            return a - b
        if isinstance(e.op, ast.Mult):
            return a * b
        if isinstance(e.op, ast.Div):
            return a / b
    raise AnalysisError(f"expression outside the arithmetic subset: {norm1(e)}")
