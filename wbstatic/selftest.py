"""E6 — self-test of the rules (thorough tier).

Each rule module carries SELFTEST: a catalogue of source edits applied to a scratch copy of the package
(temporary directory, removed afterwards).  `fire` variants break the property in a way that still parses and
must be reported by the named rule; `silent` variants are behaviour-preserving rewrites and must not change the
verdict.  A variant whose anchor text no longer occurs in the working tree is *skipped* (reported, never fatal):
the catalogue documents the rules' reach on the tree it was written for and must not turn a legitimate edit of
/repo into an alarm.
"""
from __future__ import annotations

import multiprocessing
import os
import re
import shutil
import tempfile
from typing import Any, Dict, List, Tuple

from .index import AnalysisError, PKG, repo_root


class V:
    """One variant: replace `old` by `new` (exactly one occurrence) in `file`."""

    def __init__(self, name: str, file: str, old: str, new: str, expect: str, rule: str = "", regex: bool = False,
                 edits: List[Tuple[str, str, str]] = None, replace_all: bool = False):
        self.name, self.file, self.old, self.new, self.expect, self.rule, self.regex = \
            name, file, old, new, expect, rule, regex
        self.edits = edits or []  # further (file, old, new) edits applied together (cooperating sites)
        self.replace_all = replace_all  # identifier rename: every whole-word occurrence of `old` in the file


def _apply(root: str, file: str, old: str, new: str, regex: bool, replace_all: bool = False) -> bool:
    path = os.path.join(root, file)
    if not os.path.exists(path):
        return False
    with open(path) as f:
        src = f.read()
    if replace_all:
        pat = r"(?<![A-Za-z0-9_])" + re.escape(old) + r"(?![A-Za-z0-9_])"
        if not re.search(pat, src) or re.search(r"(?<![A-Za-z0-9_])" + re.escape(new) + r"(?![A-Za-z0-9_])", src):
            return False
        out = re.sub(pat, new, src)
    elif regex:
        if len(re.findall(old, src, flags=re.S)) != 1:
            return False
        out = re.sub(old, new, src, count=1, flags=re.S)
    else:
        if src.count(old) != 1:
            return False
        out = src.replace(old, new)
    with open(path, "w") as f:
        f.write(out)
    return True


def _one(args) -> Dict[str, Any]:
    prop, v, base_keys, src_root = args
    from .check import analyse
    tmp = tempfile.mkdtemp(prefix="wbstatic_st_")
    try:
        shutil.copytree(os.path.join(src_root, PKG), os.path.join(tmp, PKG),
                        ignore=shutil.ignore_patterns("__pycache__", "*.pyc"))
        ok = _apply(tmp, v.file, v.old, v.new, v.regex, getattr(v, 'replace_all', False))
        for (f2, o2, n2) in v.edits:
            ok = ok and _apply(tmp, f2, o2, n2, False)
        if not ok:
            return {"name": v.name, "status": "skipped", "why": "anchor text not found exactly once in the working tree"}
        import ast as _ast
        try:
            with open(os.path.join(tmp, v.file)) as fh:
                _ast.parse(fh.read())
        except SyntaxError as e:
            return {"name": v.name, "status": "bad-variant", "why": f"variant does not parse: {e}"}
        try:
            ctx, _ = analyse(prop, "quick", root=tmp, quiet=True)
            fs = ctx.findings()
            new = [f for f in fs if f.key not in base_keys]
            gone = [k for k in base_keys if k not in {f.key for f in fs}]
            err = None
        except AnalysisError as e:
            new, gone, err = [], [], str(e)
        except Exception as e:  # a crash of a rule on a variant is an analysis error of that run
            new, gone, err = [], [], f"internal error: {type(e).__name__}: {e}"
        if v.expect == "fire":
            hit = [f for f in new if not v.rule or f.rule == v.rule]
            if hit:
                return {"name": v.name, "status": "fired", "rule": hit[0].rule, "construct": hit[0].construct,
                        "stmt": hit[0].stmt[:120]}
            if err is not None:
                return {"name": v.name, "status": "missed", "why": f"analysis error instead of a violation: {err}"}
            return {"name": v.name, "status": "missed",
                    "why": f"rule {v.rule} did not report the broken construct (new findings: {[f.rule for f in new]})"}
        if v.expect == "error":
            if err is not None or new:
                return {"name": v.name, "status": "fired", "rule": "fail-closed", "construct": err or new[0].construct}
            return {"name": v.name, "status": "missed", "why": "neither violation nor analysis error"}
        # silent
        if err is not None:
            return {"name": v.name, "status": "false-alarm", "why": f"analysis error on a neutral rewrite: {err}"}
        if new:
            return {"name": v.name, "status": "false-alarm",
                    "why": f"{new[0].rule} fired on a behaviour-preserving rewrite: {new[0].construct}: {new[0].stmt[:100]}"}
        return {"name": v.name, "status": "silent"}
    finally:
        shutil.rmtree(tmp, ignore_errors=True)


def run(prop: str, jobs: int = 16) -> Dict[str, Any]:
    from .check import analyse, load_rules
    mod = load_rules(prop)
    variants: List[V] = list(getattr(mod, "SELFTEST", []))
    root = repo_root()
    try:
        ctx, _ = analyse(prop, "quick", root=root, quiet=True)
        base_keys = {f.key for f in ctx.findings()}
    except AnalysisError:
        base_keys = set()
    res: List[Dict[str, Any]] = []
    if variants:
        args = [(prop, v, base_keys, root) for v in variants]
        if jobs > 1 and len(variants) > 1:
            with multiprocessing.get_context("fork").Pool(min(jobs, len(variants))) as pool:
                res = pool.map(_one, args, chunksize=1)
        else:
            res = [_one(a) for a in args]
    breaking = [v for v in variants if v.expect in ("fire", "error")]
    neutral = [v for v in variants if v.expect == "silent"]
    by = {r["name"]: r for r in res}
    failed = [{"name": r["name"], "why": r.get("why", r["status"])} for r in res
              if r["status"] in ("missed", "false-alarm", "bad-variant")]
    return {
        "variants": len(variants),
        "breaking": len([v for v in breaking if by[v.name]["status"] != "skipped"]),
        "neutral": len([v for v in neutral if by[v.name]["status"] != "skipped"]),
        "fired": len([r for r in res if r["status"] == "fired"]),
        "silent": len([r for r in res if r["status"] == "silent"]),
        "skipped": [r["name"] for r in res if r["status"] == "skipped"],
        "failed": failed,
        "results": res,
    }
