"""Order taint: values whose element ORDER comes from a directory listing (unspecified by the OS).

Sources     glob.glob / glob.iglob / os.listdir / os.scandir / Path.glob / Path.rglob / Path.iterdir
Propagates  list/array comprehensions and generator expressions over a tainted iterable, list()/tuple()/np.array()/
            np.asarray()/np.hstack…, slices and mask/fancy subscripts, element-wise arithmetic, aliases
Sanitisers  sorted(), np.sort, np.unique, set()/frozenset()/dict construction, max/min/sum/any/all/len and the
            corresponding methods, membership tests, a dominating `<name>.sort()`
Sinks       a constant positional subscript (x[0], x[-1]), next(iter(x)), tuple unpacking, x.pop()/x.index-free
            positional pairing with zip()
"""
from __future__ import annotations

import ast
from typing import Dict, List, Optional, Set, Tuple

from .defuse import DefUse
from .index import call_name, norm1, walk_no_nested

SOURCES = {"glob.glob", "glob.iglob", "os.listdir", "os.scandir", "listdir", "scandir", "iglob"}
SOURCE_METHODS = {"glob", "rglob", "iterdir"}
PRESERVE_CALLS = {"list", "tuple", "np.array", "np.asarray", "numpy.array", "numpy.asarray", "np.hstack", "np.vstack",
                  "np.concatenate", "reversed", "np.copy", "filter", "map", "iter", "enumerate"}
SANITISE_CALLS = {"sorted", "np.sort", "numpy.sort", "np.unique", "numpy.unique", "set", "frozenset", "max", "min", "sum",
                  "any", "all", "len", "np.max", "np.min", "np.amax", "np.amin", "np.sum", "np.any", "np.all", "dict",
                  "np.argmax", "np.argmin"}
SANITISE_METHODS = {"max", "min", "sum", "any", "all", "mean", "argmax", "argmin"}


def _simple_callee(c: ast.Call) -> Optional[str]:
    fn = c.func
    if isinstance(fn, ast.Name):
        return fn.id
    if isinstance(fn, ast.Attribute) and isinstance(fn.value, ast.Name) and fn.value.id in ("self", "cls"):
        return fn.attr
    return None


def returning_listing_order(idx, relpaths) -> Set[str]:
    """Names of the functions / methods of the given modules whose *return value* is a sequence in directory-listing order
    (a listing that reaches a `return` without passing a sanitiser), computed to a fixpoint so that wrappers of wrappers count."""
    from .rules.common import fctx
    funcs = [f for f in idx.all_functions() if f.module.relpath in relpaths]
    tainted: Set[str] = set()
    for _ in range(4):
        grew = False
        for f in funcs:
            if f.name in tainted:
                continue
            cfg, du, pm = fctx(f)
            ot = OrderTaint(f.node, du, extra_sources=tainted)
            if not ot.sources:
                continue
            for n, d in cfg.g.nodes(data=True):
                st = d["stmt"]
                if isinstance(st, ast.Return) and st.value is not None and ot.tainted(st.value, n):
                    tainted.add(f.name)
                    grew = True
                    break
        if not grew:
            break
    return tainted


class OrderTaint:
    def __init__(self, func: ast.AST, du: DefUse, extra_sources: Optional[Set[str]] = None):
        self.func = func
        self.du = du
        self.cfg = du.cfg
        self.extra_sources: Set[str] = set(extra_sources or ())
        self._memo: Dict[Tuple[int, int], bool] = {}
        self._active: Set[Tuple[int, int]] = set()
        self.sources: List[ast.Call] = []
        for n in walk_no_nested(func):
            if isinstance(n, ast.Call) and self.is_source(n):
                self.sources.append(n)

    @staticmethod
    def is_listing_call(c: ast.Call) -> bool:
        cn = call_name(c)
        return cn in SOURCES or (isinstance(c.func, ast.Attribute) and c.func.attr in SOURCE_METHODS)

    def is_source(self, c: ast.Call) -> bool:
        cn = call_name(c)
        if cn in SOURCES:
            return True
        if self.extra_sources and _simple_callee(c) in self.extra_sources:
            return True
        if isinstance(c.func, ast.Attribute) and c.func.attr in SOURCE_METHODS:
            # Path(...).glob / some_path.iterdir — any receiver (glob.glob itself is in SOURCES)
            return True
        return False

    def tainted(self, e: ast.AST, at: int) -> bool:
        key = (id(e), at)
        if key in self._memo:
            return self._memo[key]
        if key in self._active:
            return False
        self._active.add(key)
        r = self._t(e, at)
        self._active.discard(key)
        self._memo[key] = r
        return r

    def _sorted_in_place(self, name: str, at: int) -> bool:
        for n, d in self.cfg.g.nodes(data=True):
            s = d["stmt"]
            if isinstance(s, ast.Expr) and isinstance(s.value, ast.Call) and isinstance(s.value.func, ast.Attribute) \
                    and s.value.func.attr == "sort" and isinstance(s.value.func.value, ast.Name) \
                    and s.value.func.value.id == name:
                if n != at and self.cfg.dominates(n, at) and all(self.cfg.dominates(df.node, n)
                                                                for df in self.du.reaching(name, at)):
                    return True
        return False

    def _t(self, e: ast.AST, at: int) -> bool:
        if isinstance(e, ast.Call):
            cn = call_name(e)
            if self.is_source(e):
                return True
            if cn in SANITISE_CALLS:
                return False
            if isinstance(e.func, ast.Attribute) and e.func.attr in SANITISE_METHODS:
                return False
            if cn in PRESERVE_CALLS:
                return any(self.tainted(a, at) for a in e.args)
            if isinstance(e.func, ast.Attribute) and e.func.attr in ("copy", "astype", "tolist", "reshape", "flatten"):
                return self.tainted(e.func.value, at)
            return False
        if isinstance(e, ast.Name):
            if self._sorted_in_place(e.id, at):
                return False
            for d in self.du.reaching(e.id, at):
                if d.kind in ("assign", "walrus") and d.value is not None and self.tainted(d.value, d.node):
                    return True
                if d.kind == "aug" and d.value is not None and (self.tainted(d.value, d.node) or any(
                        d2.value is not None and d2.kind == "assign" and self.tainted(d2.value, d2.node)
                        for d2 in self.du.reaching(d.name, d.node))):
                    return True
            return False
        if isinstance(e, (ast.ListComp, ast.GeneratorExp)):
            return any(self.tainted(g.iter, at) for g in e.generators)
        if isinstance(e, (ast.SetComp, ast.DictComp)):
            return False
        if isinstance(e, ast.Subscript):
            if self.positional_index(e.slice) is not None:
                return False  # an element, no longer a sequence
            return self.tainted(e.value, at)
        if isinstance(e, ast.BinOp):
            return self.tainted(e.left, at) or self.tainted(e.right, at)
        if isinstance(e, ast.UnaryOp):
            return self.tainted(e.operand, at)
        if isinstance(e, ast.IfExp):
            return self.tainted(e.body, at) or self.tainted(e.orelse, at)
        if isinstance(e, (ast.List, ast.Tuple)):
            return any(isinstance(x, ast.Starred) and self.tainted(x.value, at) for x in e.elts)
        if isinstance(e, ast.Starred):
            return self.tainted(e.value, at)
        return False

    @staticmethod
    def positional_index(sl: ast.AST) -> Optional[int]:
        if isinstance(sl, ast.Constant) and isinstance(sl.value, int) and not isinstance(sl.value, bool):
            return sl.value
        if isinstance(sl, ast.UnaryOp) and isinstance(sl.op, ast.USub) and isinstance(sl.operand, ast.Constant) \
                and isinstance(sl.operand.value, int):
            return -sl.operand.value
        return None

    def sinks(self) -> List[Tuple[ast.AST, str]]:
        """(expression, description) for every order-dependent use of an order-tainted value."""
        out: List[Tuple[ast.AST, str]] = []
        for n, d in self.cfg.g.nodes(data=True):
            s = d["stmt"]
            if s is None:
                continue
            from .defuse import header_exprs
            for h in header_exprs(s):
                if h is None:
                    continue
                for sub in walk_no_nested(h):
                    if isinstance(sub, ast.Subscript) and isinstance(sub.ctx, ast.Load):
                        k = self.positional_index(sub.slice)
                        if k is not None and self.tainted(sub.value, n):
                            out.append((sub, f"positional element [{k}] of a sequence in directory-listing order"))
                    elif isinstance(sub, ast.Call):
                        cn = call_name(sub)
                        if cn == "next" and sub.args and self.tainted(sub.args[0], n):
                            out.append((sub, "first element (next) of a sequence in directory-listing order"))
                        elif cn == "zip" and len(sub.args) >= 2:
                            t = [self.tainted(a, n) for a in sub.args]
                            if any(t) and not all(t):
                                out.append((sub, "positional pairing (zip) of a directory-listing-ordered sequence "
                                                 "with an independently ordered one"))
                        elif isinstance(sub.func, ast.Attribute) and sub.func.attr == "pop" and \
                                self.tainted(sub.func.value, n):
                            out.append((sub, "pop() from a sequence in directory-listing order"))
            if isinstance(s, ast.Assign) and isinstance(s.targets[0], (ast.Tuple, ast.List)) \
                    and not isinstance(s.value, (ast.Tuple, ast.List)) and self.tainted(s.value, n):
                out.append((s, "tuple-unpacking of a sequence in directory-listing order"))
        return out


# ---------------------------------------------------------------------------------------------------------------------
# index-space confusion after boolean-mask filtering
MASK_CALLS = {"np.all", "np.any", "np.isin", "np.isclose", "np.logical_and", "np.logical_or", "np.logical_not", "np.in1d", "is_round"}
POS_CALLS = {"np.argsort", "np.argmin", "np.argmax", "np.flatnonzero", "np.lexsort"}
SAME_POS_CALLS = {"np.sort", "sorted", "list", "tuple", "np.array", "np.asarray", "np.split", "np.array_split", "np.concatenate"}


def _is_method(c: ast.Call) -> bool:
    return isinstance(c.func, ast.Attribute) and not (isinstance(c.func.value, ast.Name) and c.func.value.id in ("np", "numpy"))


def masked_index_escapes(func: ast.AST, du: DefUse) -> List[Tuple[ast.AST, str, str]]:
    """Positions computed *within a mask-filtered array* (argsort / unique(return_index) / argmin / where of `A[mask]`) that leave the
    function or index an unfiltered array without being mapped back through `np.flatnonzero(mask)[…]` / `np.where(mask)[0][…]`.
    → [(node, mask name, description)].  Such positions equal positions in A only when the mask keeps everything."""
    cfg = du.cfg

    def is_mask_expr(v: ast.AST, at: int, seen) -> bool:
        if isinstance(v, ast.Compare):
            return True
        if isinstance(v, ast.Call) and call_name(v) in MASK_CALLS:
            return True
        if isinstance(v, ast.UnaryOp) and isinstance(v.op, ast.Invert):
            return is_mask_expr(v.operand, at, seen)
        if isinstance(v, ast.BinOp) and isinstance(v.op, (ast.BitAnd, ast.BitOr)):
            return is_mask_expr(v.left, at, seen) and is_mask_expr(v.right, at, seen)
        if isinstance(v, ast.Name):
            ds = du.reaching(v.id, at)
            return bool(ds) and all(d.value is not None and (v.id, d.node) not in seen and is_mask_expr(d.value, d.node, seen | {(v.id, d.node)}) for d in ds)
        return False

    def filtered(e: ast.AST, at: int, seen) -> Optional[str]:
        """mask name if e is (element-wise derived from) an array filtered along its first axis by a boolean mask"""
        if isinstance(e, ast.Subscript):
            sl = e.slice.elts[0] if isinstance(e.slice, ast.Tuple) and e.slice.elts else e.slice
            if isinstance(sl, ast.Name) and is_mask_expr(sl, at, set()):
                return sl.id
            if isinstance(sl, ast.Slice) or (isinstance(e.slice, ast.Tuple)):
                return filtered(e.value, at, seen)
            return None
        if isinstance(e, ast.Name):
            ms = set()
            for d in du.reaching(e.id, at):
                if d.value is None or (e.id, d.node) in seen or d.kind not in ("assign", "aug"):
                    return None
                ms.add(filtered(d.value, d.node, seen | {(e.id, d.node)}))
            return ms.pop() if len(ms) == 1 else None
        if isinstance(e, ast.BinOp):
            return filtered(e.left, at, seen) or filtered(e.right, at, seen)
        if isinstance(e, ast.UnaryOp):
            return filtered(e.operand, at, seen)
        if isinstance(e, ast.Attribute) and e.attr == "T":
            return filtered(e.value, at, seen)
        if isinstance(e, ast.Call):
            cn = call_name(e)
            if cn in POS_CALLS or cn in ("len", "np.count_nonzero", "np.sum", "np.prod", "np.unique", "np.bincount", "np.cumsum"):
                return None
            if isinstance(e.func, ast.Attribute) and e.func.attr in ("astype", "copy", "round", "reshape") and _is_method(e):
                return filtered(e.func.value, at, seen)
            for a in e.args:
                m = filtered(a, at, seen)
                if m is not None:
                    return m
        return None

    def pos_taint(e: ast.AST, at: int, seen) -> Optional[str]:
        """mask name if e holds positions inside a mask-filtered array"""
        if isinstance(e, ast.Call):
            cn = call_name(e)
            if cn in POS_CALLS and e.args:
                return filtered(e.args[0], at, set())
            if isinstance(e.func, ast.Attribute) and e.func.attr in ("argsort", "argmin", "argmax") and _is_method(e):
                return filtered(e.func.value, at, set())
            if cn in SAME_POS_CALLS and e.args:
                return pos_taint(e.args[0], at, seen)
            if isinstance(e.func, ast.Attribute) and e.func.attr in ("tolist", "copy", "astype") and _is_method(e):
                return pos_taint(e.func.value, at, seen)
            return None
        if isinstance(e, ast.Subscript):
            # np.where(c)[0] / np.nonzero(c)[0] with c computed on a filtered array
            if isinstance(e.value, ast.Call) and call_name(e.value) in ("np.where", "np.nonzero") and len(e.value.args) == 1:
                m = filtered(e.value.args[0], at, set())
                if m is not None:
                    return m
            # mapped back: np.flatnonzero(m)[t], np.where(m)[0][t]
            base = e.value
            if isinstance(base, ast.Name):
                ds = du.reaching(base.id, at)
                if len(ds) == 1 and ds[0].value is not None:
                    base = ds[0].value
            bt = norm1(base, 200).replace(" ", "")
            if bt.startswith(("np.flatnonzero(", "np.where(", "np.nonzero(", "np.arange(")):
                return None
            return pos_taint(e.value, at, seen)
        if isinstance(e, ast.Name):
            for d in du.reaching(e.id, at):
                if (e.id, d.node) in seen:
                    continue
                if d.kind == "unpack" and d.value is not None and isinstance(d.value, ast.Call) and call_name(d.value) == "np.unique" \
                        and any(k.arg == "return_index" and getattr(k.value, "value", None) is True for k in d.value.keywords) and d.value.args:
                    # (unique, index[, …]) — the index array is the second element
                    if d.index == 1:
                        m = filtered(d.value.args[0], d.node, set())
                        if m is not None:
                            return m
                if d.kind in ("assign",) and d.value is not None:
                    m = pos_taint(d.value, d.node, seen | {(e.id, d.node)})
                    if m is not None:
                        return m
            return None
        if isinstance(e, (ast.ListComp, ast.GeneratorExp)):
            for g in e.generators:
                m = pos_taint(g.iter, at, seen)
                if m is not None:
                    return m
        return None

    out: List[Tuple[ast.AST, str, str]] = []
    for n, d in cfg.g.nodes(data=True):
        st = d["stmt"]
        if st is None:
            continue
        if isinstance(st, ast.Return) and st.value is not None:
            vals = st.value.elts if isinstance(st.value, ast.Tuple) else [st.value]
            for v in vals:
                m = pos_taint(v, n, set())
                if m is not None:
                    out.append((st, m, f"`{norm1(v, 60)}` holds positions inside the array filtered by `{m}` and is returned as if they were positions in the unfiltered list"))
        from .defuse import header_exprs
        for h in header_exprs(st):
            if h is None:
                continue
            for sub in walk_no_nested(h):
                if isinstance(sub, ast.Subscript) and isinstance(sub.ctx, ast.Load) and not isinstance(sub.slice, (ast.Slice, ast.Constant)):
                    sl = sub.slice.elts[0] if isinstance(sub.slice, ast.Tuple) and sub.slice.elts else sub.slice
                    m = pos_taint(sl, n, set()) if isinstance(sl, (ast.Name, ast.Call, ast.Subscript)) else None
                    if m is not None and filtered(sub.value, n, set()) != m:
                        bt = norm1(sub.value, 60).replace(" ", "")
                        if not bt.startswith(("np.flatnonzero(", "np.where(", "np.nonzero(")):
                            base_def = None
                            if isinstance(sub.value, ast.Name):
                                ds = du.reaching(sub.value.id, n)
                                base_def = norm1(ds[0].value, 60).replace(" ", "") if len(ds) == 1 and ds[0].value is not None else None
                            if not (base_def or "").startswith(("np.flatnonzero(", "np.where(", "np.nonzero(")):
                                out.append((sub, m, f"`{norm1(sub, 60)}` indexes an unfiltered array with positions computed inside the array filtered by `{m}`"))
    return out
