"""Order taint: values whose element ORDER comes from a directory listing (unspecified by the OS).

Sources     glob.glob / glob.iglob / os.listdir / os.scandir / Path.glob / Path.rglob / Path.iterdir
Propagates  list/array comprehensions and generator expressions over a tainted iterable, list()/tuple()/np.array()/
            np.asarray()/np.hstack…, slices and mask/fancy subscripts, element-wise arithmetic, aliases
Sanitisers  sorted(), np.sort, np.unique, set()/frozenset()/dict construction, max/min/sum/any/all/len and the
            corresponding methods, membership tests, a dominating `<name>.sort()`
Sinks       a constant positional subscript (x[0], x[-1]), next(iter(x)), tuple unpacking, x.pop()/x.index-free
            positional pairing with zip()
"""
from __future__ import annotations

import ast
from typing import Dict, List, Optional, Set, Tuple

from .defuse import DefUse
from .index import call_name, norm1, walk_no_nested

SOURCES = {"glob.glob", "glob.iglob", "os.listdir", "os.scandir", "listdir", "scandir", "iglob"}
SOURCE_METHODS = {"glob", "rglob", "iterdir"}
PRESERVE_CALLS = {"list", "tuple", "np.array", "np.asarray", "numpy.array", "numpy.asarray", "np.hstack", "np.vstack",
                  "np.concatenate", "reversed", "np.copy", "filter", "map", "iter", "enumerate"}
SANITISE_CALLS = {"sorted", "np.sort", "numpy.sort", "np.unique", "numpy.unique", "set", "frozenset", "max", "min", "sum",
                  "any", "all", "len", "np.max", "np.min", "np.amax", "np.amin", "np.sum", "np.any", "np.all", "dict",
                  "np.argmax", "np.argmin"}
SANITISE_METHODS = {"max", "min", "sum", "any", "all", "mean", "argmax", "argmin"}


def _simple_callee(c: ast.Call) -> Optional[str]:
    fn = c.func
    if isinstance(fn, ast.Name):
        return fn.id
    if isinstance(fn, ast.Attribute) and isinstance(fn.value, ast.Name) and fn.value.id in ("self", "cls"):
        return fn.attr
    return None


def returning_listing_order(idx, relpaths) -> Set[str]:
    """Names of the functions / methods of the given modules whose *return value* is a sequence in directory-listing order
    (a listing that reaches a `return` without passing a sanitiser), computed to a fixpoint so that wrappers of wrappers count."""
    from .rules.common import fctx
    funcs = [f for f in idx.all_functions() if f.module.relpath in relpaths]
    tainted: Set[str] = set()
    for _ in range(4):
        grew = False
        for f in funcs:
            if f.name in tainted:
                continue
            cfg, du, pm = fctx(f)
            ot = OrderTaint(f.node, du, extra_sources=tainted)
            if not ot.sources:
                continue
            for n, d in cfg.g.nodes(data=True):
                st = d["stmt"]
                if isinstance(st, ast.Return) and st.value is not None and ot.tainted(st.value, n):
                    tainted.add(f.name)
                    grew = True
                    break
        if not grew:
            break
    return tainted


class OrderTaint:
    def __init__(self, func: ast.AST, du: DefUse, extra_sources: Optional[Set[str]] = None):
        self.func = func
        self.du = du
        self.cfg = du.cfg
        self.extra_sources: Set[str] = set(extra_sources or ())
        self._memo: Dict[Tuple[int, int], bool] = {}
        self._active: Set[Tuple[int, int]] = set()
        self.sources: List[ast.Call] = []
        for n in walk_no_nested(func):
            if isinstance(n, ast.Call) and self.is_source(n):
                self.sources.append(n)

    @staticmethod
    def is_listing_call(c: ast.Call) -> bool:
        cn = call_name(c)
        return cn in SOURCES or (isinstance(c.func, ast.Attribute) and c.func.attr in SOURCE_METHODS)

    def is_source(self, c: ast.Call) -> bool:
        cn = call_name(c)
        if cn in SOURCES:
            return True
        if self.extra_sources and _simple_callee(c) in self.extra_sources:
            return True
        if isinstance(c.func, ast.Attribute) and c.func.attr in SOURCE_METHODS:
            # Path(...).glob / some_path.iterdir — any receiver (glob.glob itself is in SOURCES)
            return True
        return False

    def tainted(self, e: ast.AST, at: int) -> bool:
        key = (id(e), at)
        if key in self._memo:
            return self._memo[key]
        if key in self._active:
            return False
        self._active.add(key)
        r = self._t(e, at)
        self._active.discard(key)
        self._memo[key] = r
        return r

    def _sorted_in_place(self, name: str, at: int) -> bool:
        for n, d in self.cfg.g.nodes(data=True):
            s = d["stmt"]
            if isinstance(s, ast.Expr) and isinstance(s.value, ast.Call) and isinstance(s.value.func, ast.Attribute) \
                    and s.value.func.attr == "sort" and isinstance(s.value.func.value, ast.Name) \
                    and s.value.func.value.id == name:
                if n != at and self.cfg.dominates(n, at) and all(self.cfg.dominates(df.node, n)
                                                                for df in self.du.reaching(name, at)):
                    return True
        return False

    def _t(self, e: ast.AST, at: int) -> bool:
        if isinstance(e, ast.Call):
            cn = call_name(e)
            if self.is_source(e):
                return True
            if cn in SANITISE_CALLS:
                return False
            if isinstance(e.func, ast.Attribute) and e.func.attr in SANITISE_METHODS:
                return False
            if cn in PRESERVE_CALLS:
                return any(self.tainted(a, at) for a in e.args)
            if isinstance(e.func, ast.Attribute) and e.func.attr in ("copy", "astype", "tolist", "reshape", "flatten"):
                return self.tainted(e.func.value, at)
            return False
        if isinstance(e, ast.Name):
            if self._sorted_in_place(e.id, at):
                return False
            for d in self.du.reaching(e.id, at):
                if d.kind in ("assign", "walrus") and d.value is not None and self.tainted(d.value, d.node):
                    return True
                if d.kind == "aug" and d.value is not None and (self.tainted(d.value, d.node) or any(
                        d2.value is not None and d2.kind == "assign" and self.tainted(d2.value, d2.node)
                        for d2 in self.du.reaching(d.name, d.node))):
                    return True
            return False
        if isinstance(e, (ast.ListComp, ast.GeneratorExp)):
            return any(self.tainted(g.iter, at) for g in e.generators)
        if isinstance(e, (ast.SetComp, ast.DictComp)):
            return False
        if isinstance(e, ast.Subscript):
            if self.positional_index(e.slice) is not None:
                return False  # an element, no longer a sequence
            return self.tainted(e.value, at)
        if isinstance(e, ast.BinOp):
            return self.tainted(e.left, at) or self.tainted(e.right, at)
        if isinstance(e, ast.UnaryOp):
            return self.tainted(e.operand, at)
        if isinstance(e, ast.IfExp):
            return self.tainted(e.body, at) or self.tainted(e.orelse, at)
        if isinstance(e, (ast.List, ast.Tuple)):
            return any(isinstance(x, ast.Starred) and self.tainted(x.value, at) for x in e.elts)
        if isinstance(e, ast.Starred):
            return self.tainted(e.value, at)
        return False

    @staticmethod
    def positional_index(sl: ast.AST) -> Optional[int]:
        if isinstance(sl, ast.Constant) and isinstance(sl.value, int) and not isinstance(sl.value, bool):
            return sl.value
        if isinstance(sl, ast.UnaryOp) and isinstance(sl.op, ast.USub) and isinstance(sl.operand, ast.Constant) \
                and isinstance(sl.operand.value, int):
            return -sl.operand.value
        return None

    def sinks(self) -> List[Tuple[ast.AST, str]]:
        """(expression, description) for every order-dependent use of an order-tainted value."""
        out: List[Tuple[ast.AST, str]] = []
        for n, d in self.cfg.g.nodes(data=True):
            s = d["stmt"]
            if s is None:
                continue
            from .defuse import header_exprs
            for h in header_exprs(s):
                if h is None:
                    continue
                for sub in walk_no_nested(h):
                    if isinstance(sub, ast.Subscript) and isinstance(sub.ctx, ast.Load):
                        k = self.positional_index(sub.slice)
                        if k is not None and self.tainted(sub.value, n):
                            out.append((sub, f"positional element [{k}] of a sequence in directory-listing order"))
                    elif isinstance(sub, ast.Call):
                        cn = call_name(sub)
                        if cn == "next" and sub.args and self.tainted(sub.args[0], n):
                            out.append((sub, "first element (next) of a sequence in directory-listing order"))
                        elif cn == "zip" and len(sub.args) >= 2:
                            t = [self.tainted(a, n) for a in sub.args]
                            if any(t) and not all(t):
                                out.append((sub, "positional pairing (zip) of a directory-listing-ordered sequence "
                                                 "with an independently ordered one"))
                        elif isinstance(sub.func, ast.Attribute) and sub.func.attr == "pop" and \
                                self.tainted(sub.func.value, n):
                            out.append((sub, "pop() from a sequence in directory-listing order"))
            if isinstance(s, ast.Assign) and isinstance(s.targets[0], (ast.Tuple, ast.List)) \
                    and not isinstance(s.value, (ast.Tuple, ast.List)) and self.tainted(s.value, n):
                out.append((s, "tuple-unpacking of a sequence in directory-listing order"))
        return out
