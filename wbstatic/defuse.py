"""E2 — intra-procedural reaching definitions / def-use chains / provenance on the E1 CFG."""
from __future__ import annotations

import ast
from dataclasses import dataclass
from typing import Callable, Dict, FrozenSet, Iterable, Iterator, List, Optional, Set, Tuple

from .cfg import CFG, build_cfg
from .index import AnalysisError, _flatten_targets, norm1, walk_no_nested


@dataclass(frozen=True)
class Def:
    name: str
    node: int                 # CFG node of the defining statement (-1: parameter)
    kind: str                 # assign | aug | for | with | param | import | except | unpack | def | walrus | comp
    value: Optional[ast.AST]  # the expression assigned (assign/aug/walrus), the iterable (for), ctx expr (with)
    index: Optional[int] = None  # position in a tuple-unpack of `value`
    stmt: Optional[ast.AST] = None


def header_exprs(s: ast.AST) -> List[ast.AST]:
    """The expressions evaluated *at* the CFG node of statement s (not its nested bodies)."""
    if isinstance(s, (ast.If, ast.While)):
        return [s.test]
    if isinstance(s, (ast.For, ast.AsyncFor)):
        return [s.iter]
    if isinstance(s, (ast.With, ast.AsyncWith)):
        return [i.context_expr for i in s.items]
    if isinstance(s, ast.Try):
        return []
    if isinstance(s, ast.ExceptHandler):
        return [s.type] if s.type is not None else []
    if isinstance(s, ast.Match):
        return [s.subject]
    if isinstance(s, (ast.FunctionDef, ast.AsyncFunctionDef, ast.ClassDef)):
        return list(s.decorator_list)
    return [s]


class DefUse:
    def __init__(self, func: ast.AST, cfg: Optional[CFG] = None):
        self.func = func
        self.cfg = cfg or build_cfg(func)
        self.defs_at: Dict[int, List[Def]] = {}
        self.params: List[str] = []
        self._collect_defs()
        self._solve()

    # ------------------------------------------------------------------ definitions
    def _collect_defs(self) -> None:
        g = self.cfg.g
        pdefs: List[Def] = []
        a = getattr(self.func, "args", None)
        if a is not None:
            allargs = a.posonlyargs + a.args + a.kwonlyargs
            if a.vararg:
                allargs = allargs + [a.vararg]
            if a.kwarg:
                allargs = allargs + [a.kwarg]
            for x in allargs:
                self.params.append(x.arg)
                pdefs.append(Def(x.arg, self.cfg.entry, "param", None))
        self.defs_at[self.cfg.entry] = pdefs
        for n, d in g.nodes(data=True):
            s = d["stmt"]
            if s is None:
                continue
            out: List[Def] = []
            if isinstance(s, ast.Assign):
                for t in s.targets:
                    out += self._target_defs(t, s.value, n, s)
            elif isinstance(s, ast.AnnAssign):
                if s.value is not None:
                    out += self._target_defs(s.target, s.value, n, s)
            elif isinstance(s, ast.AugAssign):
                if isinstance(s.target, ast.Name):
                    out.append(Def(s.target.id, n, "aug", s.value, stmt=s))
            elif isinstance(s, (ast.For, ast.AsyncFor)):
                for t in _flatten_targets(s.target):
                    if isinstance(t, ast.Name):
                        idx = None
                        if isinstance(s.target, (ast.Tuple, ast.List)):
                            idx = [i for i, e in enumerate(s.target.elts) if e is t or t in ast.walk(e)][0]
                        out.append(Def(t.id, n, "for", s.iter, idx, s))
            elif isinstance(s, (ast.With, ast.AsyncWith)):
                for it in s.items:
                    if it.optional_vars is not None:
                        for t in _flatten_targets(it.optional_vars):
                            if isinstance(t, ast.Name):
                                out.append(Def(t.id, n, "with", it.context_expr, stmt=s))
            elif isinstance(s, ast.ExceptHandler):
                if s.name:
                    out.append(Def(s.name, n, "except", s.type, stmt=s))
            elif isinstance(s, (ast.Import, ast.ImportFrom)):
                for al in s.names:
                    out.append(Def((al.asname or al.name).split(".")[0], n, "import", None, stmt=s))
            elif isinstance(s, (ast.FunctionDef, ast.AsyncFunctionDef, ast.ClassDef)):
                out.append(Def(s.name, n, "def", s, stmt=s))
            # walrus inside header expressions
            for e in header_exprs(s):
                if e is None:
                    continue
                for sub in walk_no_nested(e):
                    if isinstance(sub, ast.NamedExpr) and isinstance(sub.target, ast.Name):
                        out.append(Def(sub.target.id, n, "walrus", sub.value, stmt=s))
            if out:
                self.defs_at[n] = out

    def _target_defs(self, t: ast.AST, value: ast.AST, n: int, stmt: ast.AST) -> List[Def]:
        out: List[Def] = []
        if isinstance(t, ast.Name):
            out.append(Def(t.id, n, "assign", value, stmt=stmt))
        elif isinstance(t, (ast.Tuple, ast.List)):
            if isinstance(value, (ast.Tuple, ast.List)) and len(value.elts) == len(t.elts) \
                    and not any(isinstance(e, ast.Starred) for e in t.elts + value.elts):
                for te, ve in zip(t.elts, value.elts):
                    out += self._target_defs(te, ve, n, stmt)
            else:
                for i, te in enumerate(t.elts):
                    for sub in _flatten_targets(te):
                        if isinstance(sub, ast.Name):
                            out.append(Def(sub.id, n, "unpack", value, i, stmt))
        elif isinstance(t, ast.Starred):
            out += self._target_defs(t.value, value, n, stmt)
        # attribute / subscript stores do not define local names
        return out

    # ------------------------------------------------------------------ dataflow
    def _solve(self) -> None:
        g = self.cfg.g
        gen: Dict[int, Dict[str, Set[Def]]] = {}
        for n, ds in self.defs_at.items():
            m: Dict[str, Set[Def]] = {}
            for d in ds:
                m.setdefault(d.name, set()).add(d)
            gen[n] = m
        IN: Dict[int, Dict[str, FrozenSet[Def]]] = {n: {} for n in g.nodes}
        OUT: Dict[int, Dict[str, FrozenSet[Def]]] = {n: {} for n in g.nodes}
        work = list(nx_order(g, self.cfg.entry))
        inwork = set(work)
        while work:
            n = work.pop(0)
            inwork.discard(n)
            merged: Dict[str, Set[Def]] = {}
            for p in g.predecessors(n):
                for k, v in OUT[p].items():
                    merged.setdefault(k, set()).update(v)
            newin = {k: frozenset(v) for k, v in merged.items()}
            IN[n] = newin
            out = dict(newin)
            if n in gen:
                for k, v in gen[n].items():
                    # augmented assignment keeps nothing of the old def as a *def* (the value uses it)
                    out[k] = frozenset(v)
            if out != OUT[n]:
                OUT[n] = out
                for s in g.successors(n):
                    if s not in inwork:
                        work.append(s)
                        inwork.add(s)
        self.IN = IN
        self.OUT = OUT

    # ------------------------------------------------------------------ queries
    def reaching(self, name: str, at: int) -> List[Def]:
        """Definitions of `name` that reach the *entry* of CFG node `at`."""
        return sorted(self.IN.get(at, {}).get(name, frozenset()), key=lambda d: (d.node, d.kind))

    def node_of_expr(self, e: ast.AST) -> int:
        """CFG node whose header contains expression e."""
        for n, d in self.cfg.g.nodes(data=True):
            s = d["stmt"]
            if s is None:
                continue
            for h in header_exprs(s):
                if h is None:
                    continue
                if h is e:
                    return n
                for sub in ast.walk(h):
                    if sub is e:
                        return n
        raise AnalysisError(f"expression not found in CFG: {norm1(e)}")

    def is_local(self, name: str) -> bool:
        return any(d.name == name for ds in self.defs_at.values() for d in ds)

    def backward_slice(self, e: ast.AST, at: Optional[int] = None, max_nodes: int = 4000
                       ) -> Tuple[List[ast.AST], Set[str], List[Def]]:
        """All expressions whose value may flow into `e` via local names (transitively),
        the parameter names reached, and the definitions crossed."""
        if at is None:
            at = self.node_of_expr(e)
        seen_defs: Set[Def] = set()
        exprs: List[ast.AST] = []
        params: Set[str] = set()
        work: List[Tuple[ast.AST, int]] = [(e, at)]
        count = 0
        while work:
            x, n = work.pop()
            exprs.append(x)
            count += 1
            if count > max_nodes:
                raise AnalysisError("backward slice too large")
            for sub in walk_no_nested(x):
                if isinstance(sub, ast.Name) and isinstance(sub.ctx, ast.Load):
                    for d in self.reaching(sub.id, n):
                        if d in seen_defs:
                            continue
                        seen_defs.add(d)
                        if d.kind == "param":
                            params.add(d.name)
                        elif d.value is not None and d.kind != "def":
                            work.append((d.value, d.node))
                            if d.kind == "aug":
                                # x += v : previous x also flows
                                for d2 in self.reaching(d.name, d.node):
                                    if d2 not in seen_defs:
                                        seen_defs.add(d2)
                                        if d2.kind == "param":
                                            params.add(d2.name)
                                        elif d2.value is not None:
                                            work.append((d2.value, d2.node))
        return exprs, params, sorted(seen_defs, key=lambda d: (d.node, d.name))

    def single_def(self, name: str, at: int) -> Optional[Def]:
        ds = self.reaching(name, at)
        return ds[0] if len(ds) == 1 else None

    def resolve_local(self, e: ast.AST, at: int, depth: int = 6) -> ast.AST:
        """Follow a chain of single-definition plain-name aliases/temporaries: x -> its value expr."""
        while depth > 0 and isinstance(e, ast.Name):
            d = self.single_def(e.id, at)
            if d is None or d.kind != "assign" or d.value is None:
                break
            e, at = d.value, d.node
            depth -= 1
        return e


def nx_order(g, entry) -> Iterator[int]:
    import networkx as nx
    seen = set()
    for n in nx.dfs_preorder_nodes(g, entry):
        seen.add(n)
        yield n
    for n in g.nodes:
        if n not in seen:
            yield n
