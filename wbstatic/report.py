"""Findings, per-rule bookkeeping, evidence files, known-findings file, replay files."""
from __future__ import annotations

import ast
import json
import os
import time
from dataclasses import dataclass, field, asdict
from typing import Any, Dict, List, Optional

from .index import AnalysisError, FunctionInfo, Index, norm1

VERIF = os.path.dirname(os.path.dirname(os.path.abspath(__file__)))
EVIDENCE_DIR = os.path.join(VERIF, "evidence")
REPLAY_DIR = os.path.join(EVIDENCE_DIR, "replay")
KNOWN_FILE = os.path.join(VERIF, "known_findings.json")


@dataclass
class Finding:
    prop: str
    rule: str
    construct: str        # qualified construct, e.g. wannierberri/run_grid.py:process
    stmt: str             # normalised statement / instance text (never a line number)
    message: str
    file: str = ""
    line: int = 0
    extra: Dict[str, Any] = field(default_factory=dict)

    @property
    def key(self) -> str:
        return f"{self.prop}|{self.rule}|{self.construct}|{self.stmt}"


class RuleRec:
    def __init__(self, ctx: "Ctx", rule_id: str, title: str, min_instances: int = 1, armed: bool = True):
        self.ctx = ctx
        self.id = rule_id
        self.title = title
        self.min_instances = min_instances
        self.armed = armed
        self.instances: List[str] = []
        self.obligations = 0
        self.discharged = 0
        self.samples: List[Any] = []
        self.notes: List[str] = []
        self.observations: List[str] = []
        self.findings: List[Finding] = []
        self.idioms: List[str] = []
        self.unrecognised: List[str] = []

    def instance(self, name: str) -> None:
        self.instances.append(name)

    def ok(self, desc: str, sample: Any = None) -> None:
        self.obligations += 1
        self.discharged += 1
        if len(self.samples) < 12:
            self.samples.append({"obligation": desc, "status": "holds", **({"detail": sample} if sample is not None else {})})

    def idiom(self, desc: str) -> None:
        if desc not in self.idioms:
            self.idioms.append(desc)

    def note(self, s: str) -> None:
        self.notes.append(s)

    def observe(self, s: str) -> None:
        """Out-of-scope observation: printed in evidence, never part of the verdict."""
        self.observations.append(s)

    def violation(self, where, node: Optional[ast.AST], message: str, stmt: Optional[str] = None, **extra) -> Finding:
        self.obligations += 1
        if isinstance(where, FunctionInfo):
            construct, file = where.short, where.module.relpath
        else:
            construct = str(where)
            file = construct.split(":")[0]
        line = getattr(node, "lineno", 0) if node is not None else 0
        text = stmt if stmt is not None else (norm1(node) if node is not None else "")
        f = Finding(self.ctx.prop, self.id, construct, text, message, file, line, extra)
        self.findings.append(f)
        self.samples.append({"obligation": message, "status": "VIOLATED", "construct": construct, "stmt": text})
        return f

    def check(self, cond: bool, desc: str, where, node: Optional[ast.AST], message: str, **extra) -> bool:
        if cond:
            self.ok(desc)
        else:
            self.violation(where, node, message, **extra)
        return cond

    def expect(self, cond: bool, desc: str, where, node: Optional[ast.AST], what: str) -> bool:
        """Recognition obligation: the construct must have the shape the rule was written for.  A failure is NOT a
        violation (a behaviour-preserving rewrite may have changed the shape) — it makes the run fail closed with
        ANALYSIS-ERROR (exit 2) unless a genuine violation was established elsewhere."""
        if cond:
            self.ok(desc)
            return True
        self.obligations += 1
        construct = where.short if isinstance(where, FunctionInfo) else str(where)
        line = getattr(node, "lineno", 0) if node is not None else 0
        self.unrecognised.append(f"{self.id} {construct}:{line}: {what}")
        return False

    def as_dict(self) -> Dict[str, Any]:
        return {
            "unrecognised": self.unrecognised,
            "rule": self.id, "title": self.title, "armed": self.armed,
            "instances": len(self.instances), "instance_names": self.instances[:60],
            "min_instances": self.min_instances,
            "obligations": self.obligations, "discharged": self.discharged,
            "idioms_accepted": self.idioms, "notes": self.notes, "out_of_scope_observations": self.observations,
            "findings": [asdict(f) for f in self.findings],
        }


class Ctx:
    def __init__(self, prop: str, tier: str, index: Index, quiet: bool = False):
        self.prop = prop
        self.tier = tier
        self.index = index
        self.rules: List[RuleRec] = []
        self.assumptions: List[str] = []
        self.quiet = quiet
        self.extra: Dict[str, Any] = {}

    def rule(self, rule_id: str, title: str, min_instances: int = 1, armed: bool = True) -> RuleRec:
        r = RuleRec(self, rule_id, title, min_instances, armed)
        self.rules.append(r)
        return r

    def assume(self, s: str) -> None:
        if s not in self.assumptions:
            self.assumptions.append(s)

    @property
    def thorough(self) -> bool:
        return self.tier == "thorough"

    def finish_rules(self) -> None:
        """Fail closed on a vacuous rule — unless a violation was already established (that verdict stands)."""
        if self.findings():
            return
        unrec = [u for r in self.rules for u in r.unrecognised]
        if unrec:
            raise AnalysisError("construct(s) not in the shape the rule understands (no verdict): " + " | ".join(unrec[:4]))
        for r in self.rules:
            if len(r.instances) < r.min_instances:
                raise AnalysisError(
                    f"{self.prop} {r.id}: only {len(r.instances)} instance(s) matched, "
                    f"{r.min_instances} confirmed by hand — the rule would pass vacuously")

    def findings(self) -> List[Finding]:
        out, seen = [], set()
        for r in self.rules:
            if not r.armed:
                continue
            for f in r.findings:
                if f.key not in seen:
                    seen.add(f.key)
                    out.append(f)
        return out


def load_known() -> Dict[str, Any]:
    if not os.path.exists(KNOWN_FILE):
        return {"known": [], "fixed": []}
    with open(KNOWN_FILE) as f:
        return json.load(f)


def match_known(f: Finding, known: Dict[str, Any]) -> Optional[Dict[str, Any]]:
    for k in known.get("known", []):
        if k.get("property") == f.prop and k.get("rule") == f.rule and k.get("construct") == f.construct \
                and k.get("stmt") == f.stmt:
            return k
    return None


def write_evidence(ctx: Ctx, level: str, wall_s: float, n_viol: int, n_known: int, explanation: str,
                   proof: Optional[Dict[str, Any]] = None, selftest: Optional[Dict[str, Any]] = None) -> str:
    os.makedirs(EVIDENCE_DIR, exist_ok=True)
    obligations = sum(r.obligations for r in ctx.rules if r.armed)
    discharged = sum(r.discharged for r in ctx.rules if r.armed)
    instances = sorted({i for r in ctx.rules for i in r.instances})
    samples: List[Any] = []
    for r in ctx.rules:
        for s in r.samples[:6]:
            samples.append({"rule": r.id, **(s if isinstance(s, dict) else {"case": s})})
    if not samples:
        samples = [{"note": "no obligations generated"}]
    coverage: Dict[str, Any] = {
        "explanation": explanation,
        "obligations": obligations,
        "discharged": discharged,
        "evaluations": max(obligations, 1),
        "distinct_nontrivial": len(instances),
        "rule": "one evaluation = one static obligation (a rule applied to one construct of /repo's working tree); "
                "distinct_nontrivial = number of distinct program constructs (functions / call sites / classes / "
                "table rows) the rules matched on this run",
        "samples": samples[:40],
        "rules": [r.as_dict() for r in ctx.rules],
        "files_consulted": ctx.index.consulted_files(),
        "repo_root": ctx.index.root,
        "modules_parsed": len(ctx.index.modules),
        "known_findings_suppressed": n_known,
        "exhaustive": False,
    }
    coverage.update(ctx.extra)
    if proof:
        coverage.update(proof)
    if selftest is not None:
        coverage["selftest"] = selftest
    ev = {
        "property_id": ctx.prop,
        "tier": ctx.tier,
        "seed": int(os.environ.get("VERIF_SEED", "0") or 0),
        "level": level,
        "coverage": coverage,
        "assumptions": ctx.assumptions,
        "wall_s": round(wall_s, 3),
        "violations": n_viol,
    }
    path = os.path.join(EVIDENCE_DIR, f"{ctx.prop}.json")
    tmp = path + ".tmp"
    with open(tmp, "w") as f:
        json.dump(ev, f, indent=1, sort_keys=False, default=str)
    os.replace(tmp, path)
    return path


def write_replay(f: Finding, n: int) -> str:
    os.makedirs(REPLAY_DIR, exist_ok=True)
    path = os.path.join(REPLAY_DIR, f"{f.prop}-{n}.json")
    with open(path, "w") as fh:
        json.dump({"property": f.prop, "rule": f.rule, "construct": f.construct, "stmt": f.stmt,
                   "file": f.file, "line": f.line, "message": f.message, "extra": f.extra,
                   "key": f.key,
                   "replay": f"cd /verif && /venv/bin/python -m wbstatic.check {f.prop} --replay {path}"},
                  fh, indent=1, default=str)
    return path
