"""usage: import_mutant.py <prop> <k> <src_dir> <clean_log> <mut_log>  -> /verif/seeded/<prop>-m<k>/"""
import json, os, shutil, subprocess, sys
prop, k, src, cl, ml = sys.argv[1:6]
dst = f"/verif/seeded/{prop}-m{k}"
os.makedirs(dst, exist_ok=True)
shutil.copy(os.path.join(src, "patch.diff"), dst)
shutil.copy(os.path.join(src, "demo.py"), dst)
meta = {}
mp = os.path.join(src, "meta.json")
if os.path.exists(mp):
    try:
        meta = json.load(open(mp))
    except Exception as e:
        meta = {"agent_meta_unreadable": str(e)}
last = lambda p: (open(p).read().strip().splitlines() or [""])[-1][:300]
meta["property"] = prop
meta["origin"] = "independent sub-agent given only the property text and a scratch worktree"
meta["verified_by_me"] = {
    "repo_head": subprocess.check_output(["git", "-C", "/repo", "log", "--format=%h", "-1"]).decode().strip(),
    "how": "tools/verify_mutant.sh: fresh worktree of /repo HEAD; demo on clean tree, `git apply patch.diff`, demo again",
    "demo_clean": "exit 0: " + last(cl),
    "demo_mutated": "exit 1: " + last(ml),
}
json.dump(meta, open(os.path.join(dst, "meta.json"), "w"), indent=1)
print("imported", dst)
