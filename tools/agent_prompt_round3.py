"""Prompt for a third-round mutation sub-agent: as round 2 (all earlier changes listed as `avoid`), worktree suffix `c`, and a
request for mechanisms the earlier rounds did not use.  usage: agent_prompt_round3.py <ID>"""
import json, os, subprocess, sys
pid = sys.argv[1]
V = os.path.dirname(os.path.dirname(os.path.abspath(__file__)))
prev = []
for d in sorted(os.listdir(os.path.join(V, "seeded"))):
    if d.startswith(pid + "-m"):
        m = json.load(open(os.path.join(V, "seeded", d, "meta.json")))
        prev.append(f"({d[-2:]}) {m.get('summary', '')[:300]}")
avoid = " ; ".join(prev)
out = subprocess.run([sys.executable, os.path.join(V, "tools", "agent_prompt.py"), pid, "2", sys.argv[2] if len(sys.argv) > 2 else "c", avoid], capture_output=True, text=True).stdout
extra = ("\nADDITIONAL REQUEST FOR THIS ROUND: the earlier rounds are listed above; look for parts of the property's statement and anchored "
         "functions they did NOT touch. Change 1: a bug in a code path that only a non-default option, an unusual shape/size, a second call on "
         "the same object, or a less-used sibling implementation reaches. Change 2: either two cooperating edits at different sites that each "
         "look fine alone, or a value that is computed correctly but then used/stored/returned in the wrong place (wrong variable, stale copy, "
         "wrong order of two statements). Both should read like honest maintenance edits.\n"
         "PRACTICAL: every demo must start with `import os, sys; sys.path.insert(0, os.getcwd())`; run pytest as "
         "`/venv/bin/python -m pytest -q -p no:cacheprovider --serial -p wannierberri.utils.mmn2uHu tests/test_XXX.py`.\n")
print(out.replace("DELIVERABLES —", extra + "\nDELIVERABLES —", 1))
