"""Prompt for a second-round mutation sub-agent: as agent_prompt.py, the earlier changes listed as `avoid`, and a request that at
least one change be a restructuring that introduces the bug in passing.  usage: agent_prompt_round2.py <ID>"""
import json, os, subprocess, sys
pid = sys.argv[1]
V = os.path.dirname(os.path.dirname(os.path.abspath(__file__)))
prev = []
for d in sorted(os.listdir(os.path.join(V, "seeded"))):
    if d.startswith(pid + "-m"):
        m = json.load(open(os.path.join(V, "seeded", d, "meta.json")))
        prev.append(f"({d[-2:]}) {m.get('summary', '')[:300]}")
avoid = " ; ".join(prev)
out = subprocess.run([sys.executable, os.path.join(V, "tools", "agent_prompt.py"), pid, "2", "b", avoid], capture_output=True, text=True).stdout
extra = ("\nADDITIONAL REQUEST FOR THIS ROUND: make change 1 a plausible *restructuring* of the anchored code — extract a private helper, "
         "merge or split loops, replace a loop by a comprehension or a numpy idiom, introduce named temporaries, reorder independent "
         "statements, rename locals — in the course of which the bug slips in (the diff should look like an honest clean-up to a reviewer). "
         "Change 2 should be a small local edit (one to three lines) of a different mechanism.\n")
print(out.replace("DELIVERABLES —", extra + "\nDELIVERABLES —", 1))
