"""Prompt for a sub-agent that produces behaviour-PRESERVING refactors of the code a property is anchored in
(used to test that the checks do not raise alarms on code where the property still holds)."""
import json, sys
pid = sys.argv[1]
n = sys.argv[2] if len(sys.argv) > 2 else "4"
wt = pid + "n"
rec = None
for l in open('/verif/properties.jsonl'):
    r = json.loads(l)
    if r['id'] == pid:
        rec = r
print(f"""You are helping to test a verification effort for the Python package wannier-berri (Wannier interpolation code).
You have your own scratch git worktree of the repository at /tmp/wt/{wt} (a checkout of the current HEAD). Work ONLY inside
/tmp/wt/{wt} and /tmp/wt_out/{wt}. Do not read or touch /repo, /verif or /root/.vp. The interpreter is /venv/bin/python (run
things from /tmp/wt/{wt}; every script must start with `import os, sys; sys.path.insert(0, os.getcwd())` so that
`import wannierberri` resolves to the worktree). There is no network.

Here is a semantic property that wannier-berri satisfies (JSON record); the `anchors` say which files/functions implement it:

{json.dumps(rec, indent=1)}

TASK: produce {n} DIFFERENT, independent, realistic BEHAVIOUR-PRESERVING refactors of the anchored code (files under wannierberri/
only, never tests) — the kind of clean-up a maintainer would really commit and that leaves the property (and all other behaviour)
fully intact for every input. Each refactor should touch the functions named in the anchors and change their SHAPE noticeably, e.g.:
  - rename local variables / loop variables consistently; reorder independent statements; split or merge statements;
    introduce or inline a temporary; replace an explicit loop by a comprehension or vice versa;
  - replace an idiom by an equivalent one (np.dot ↔ @, x.T.dot(y) ↔ y-equivalent einsum, range(len(a)) ↔ enumerate, `a = a + b` ↔ `a += b`
    where aliasing makes no difference, dict comprehension ↔ loop, f-string reformatting, keyword ↔ positional arguments,
    `if not x: A else: B` ↔ `if x: B else: A`, early return ↔ else-branch, explicit default argument that equals the default);
  - extract a small private helper function/method (in the same module) or inline one;
  - simplify arithmetic to an algebraically identical form (e.g. expand or factor an integer index expression).
Do NOT change public signatures, attribute names of objects, file formats, numerical results or error behaviour.
Make each refactor moderately sized (roughly 5–40 changed lines), self-contained, and different in kind from the others.
For each refactor r<k>: apply it alone to the clean worktree, run the relevant tests
(`cd /tmp/wt/{wt} && timeout 2400 /venv/bin/python -m pytest -q -p no:cacheprovider --serial -p wannierberri.utils.mmn2uHu tests/test_XXX.py`;
tests known to fail on the clean tree: test_vaspspn, test_sitesym_Fe*, *Mn3Sn*, test_create_w90files_Fe_222[False-False] — ignore those)
AND write a small stand-alone script equiv.py that exercises the refactored functions directly on several inputs (including
unusual ones) and compares with hard-coded expected values or invariants, so that it passes (exit 0) both on the clean tree and
with the refactor applied.

DELIVERABLES — for k = 1..{n} create /tmp/wt_out/{wt}/r<k>/ containing:
  - patch.diff : `git -C /tmp/wt/{wt} diff` with ONLY that refactor applied (must apply with `git apply` to a clean checkout),
  - equiv.py   : the script described above (run as `cd <worktree> && /venv/bin/python /path/to/equiv.py`),
  - meta.json  : {{"property": "{pid}", "summary": "<one line>", "why_equivalent": "<argument that behaviour is unchanged>",
                  "files_touched": [...], "tests_run": ["<pytest command>: <result line>", ...]}}
Leave the worktree CLEAN at the end (`git -C /tmp/wt/{wt} checkout -- .`; remove files you created inside it). Do not commit.
Reply with a short summary (one paragraph per refactor).

PRACTICAL NOTES: the machine is shared and loaded; always give explicit timeouts to shell commands; do not use pytest-xdist;
write scratch output into a temporary directory, not into the worktree.""")
