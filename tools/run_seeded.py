"""Run every claimed wbstatic check against every seeded change (applied to a scratch copy of the package, never to /repo).
usage: /venv/bin/python tools/run_seeded.py [seed-id ...]   → prints a table and writes seeded/RESULTS.json"""
import json, os, re, shutil, subprocess, sys, tempfile
from concurrent.futures import ThreadPoolExecutor

VERIF = os.path.dirname(os.path.dirname(os.path.abspath(__file__)))
seeds = sorted(d for d in os.listdir(os.path.join(VERIF, "seeded")) if os.path.isdir(os.path.join(VERIF, "seeded", d)))
if len(sys.argv) > 1:
    seeds = [s for s in seeds if s in sys.argv[1:]]
checks = [c["property_id"] for c in json.load(open(os.path.join(VERIF, "MANIFEST.json")))["checks"]]
extra = [p for p in os.environ.get("EXTRA_CHECKS", "").split() if p]
checks = sorted(set(checks + extra))


def one(seed):
    tmp = tempfile.mkdtemp(prefix="seeded_")
    try:
        shutil.copytree("/repo/wannierberri", os.path.join(tmp, "wannierberri"), ignore=shutil.ignore_patterns("__pycache__"))
        p = subprocess.run(["patch", "-p1", "-s", "-d", tmp, "-i", os.path.join(VERIF, "seeded", seed, "patch.diff")],
                           capture_output=True, text=True)
        if p.returncode != 0:
            return seed, {"error": "patch does not apply: " + (p.stdout + p.stderr)[:300]}
        res = {}
        for c in checks:
            r = subprocess.run(["/venv/bin/python", "-m", "wbstatic.check", c, "--root", tmp, "--no-evidence"], cwd=VERIF,
                               capture_output=True, text=True)
            if r.returncode != 0:
                rules = sorted(set(re.findall(r"\[(R[0-9.]+[a-z]?)\]", r.stdout)))
                res[c] = {"exit": r.returncode, "rules": rules,
                          "first": next((l.strip() for l in r.stdout.splitlines() if "[R" in l or "ANALYSIS-ERROR" in l), "")[:260]}
        return seed, res
    finally:
        shutil.rmtree(tmp, ignore_errors=True)


with ThreadPoolExecutor(8) as ex:
    out = dict(ex.map(one, seeds))
prev = {}
rp = os.path.join(VERIF, "seeded", "RESULTS.json")
if os.path.exists(rp) and len(sys.argv) > 1:
    prev = json.load(open(rp))
prev.update(out)
json.dump(prev, open(rp, "w"), indent=1, sort_keys=True)
for s in seeds:
    r = out[s]
    prop = s.split("-")[0]
    if "error" in r:
        print(f"{s:10s} ERROR {r['error']}")
        continue
    caught = {c: v for c, v in r.items() if v["exit"] == 1}
    errs = {c: v for c, v in r.items() if v["exit"] == 2}
    status = "CAUGHT" if caught else ("analysis-error" if errs else "missed")
    print(f"{s:10s} {status:15s} " + "; ".join(f"{c}:{','.join(v['rules'])}" for c, v in caught.items())
          + ("  [exit2: " + ",".join(errs) + "]" if errs else ""))
