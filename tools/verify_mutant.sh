#!/bin/bash
# usage: verify_mutant.sh <src_dir with patch.diff demo.py> <name>
# Creates a scratch worktree of /repo HEAD under /tmp/vm/<name>, runs the demo clean and mutated, runs every claimed
# wbstatic check against the mutated tree (--root), prints a summary, removes the worktree.
src=$1; name=$2
wt=/tmp/vm/$name
mkdir -p /tmp/vm
git -C /repo worktree remove --force $wt 2>/dev/null
git -C /repo worktree add -q --detach $wt HEAD || exit 3
cp /repo/wannierberri/_version.py $wt/wannierberri/
cd $wt
echo "== $name"
timeout 900 /venv/bin/python $src/demo.py > /tmp/vm/$name.clean.log 2>&1; c=$?
echo "demo clean exit=$c : $(tail -1 /tmp/vm/$name.clean.log | cut -c1-150)"
if ! git apply $src/patch.diff; then echo "PATCH DOES NOT APPLY"; cd /; git -C /repo worktree remove --force $wt; exit 4; fi
/venv/bin/python -c "import ast,sys,subprocess; [ast.parse(open(f).read()) for f in subprocess.check_output(['git','diff','--name-only']).decode().split() if f.endswith('.py')]" || echo "SYNTAX ERROR"
timeout 900 /venv/bin/python $src/demo.py > /tmp/vm/$name.mut.log 2>&1; m=$?
echo "demo mutated exit=$m : $(tail -1 /tmp/vm/$name.mut.log | cut -c1-150)"
cd /verif
for p in $(/venv/bin/python -c "import json;print(' '.join(c['property_id'] for c in json.load(open('/verif/MANIFEST.json'))['checks']))") $3; do
  out=$(/venv/bin/python -m wbstatic.check $p --root $wt --no-evidence 2>&1); rc=$?
  if [ $rc -ne 0 ]; then echo "  check $p -> exit $rc"; echo "$out" | grep -E "^\s+wannierberri/.*\[R|ANALYSIS-ERROR" | head -4; fi
done
echo "  (checks not listed above: exit 0)"
cd /; git -C /repo worktree remove --force $wt
