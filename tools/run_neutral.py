"""Apply each behaviour-preserving refactor (neutral/<id>-r<k>/patch.diff or a given directory) to a scratch copy of the package and run
all manifest checks on it; any exit != 0 is a false alarm of the machinery."""
import json, os, shutil, subprocess, sys, tempfile
from concurrent.futures import ThreadPoolExecutor
VERIF = os.path.dirname(os.path.dirname(os.path.abspath(__file__)))
man = json.load(open(os.path.join(VERIF, "MANIFEST.json")))
props = [c["property_id"] for c in man["checks"]]
dirs = [os.path.abspath(x) for x in sys.argv[1:]] or sorted(os.path.join(VERIF, "neutral", d) for d in os.listdir(os.path.join(VERIF, "neutral")) if os.path.isdir(os.path.join(VERIF, "neutral", d)))

def one(d):
    tmp = tempfile.mkdtemp(prefix="wbneutral_")
    try:
        shutil.copytree("/repo/wannierberri", os.path.join(tmp, "wannierberri"), ignore=shutil.ignore_patterns("__pycache__", "*.pyc"))
        r = subprocess.run(["git", "apply", "--unsafe-paths", "--directory", tmp, os.path.join(d, "patch.diff")], capture_output=True, text=True, cwd=tmp)
        if r.returncode != 0:
            r = subprocess.run(["patch", "-p1", "-d", tmp, "-i", os.path.join(d, "patch.diff")], capture_output=True, text=True)
            if r.returncode != 0:
                return d, {"apply": "FAILED " + r.stdout[-200:] + r.stderr[-200:]}
        out = {}
        for p in props:
            r = subprocess.run(["/venv/bin/python", "-m", "wbstatic.check", p, "--root", tmp, "--no-evidence", "--no-selftest"], capture_output=True, text=True, cwd=VERIF)
            if r.returncode != 0:
                lines = [l for l in (r.stdout + r.stderr).splitlines() if "[R" in l or "ANALYSIS-ERROR" in l]
                out[p] = (r.returncode, lines[:3])
        return d, out
    finally:
        shutil.rmtree(tmp, ignore_errors=True)

with ThreadPoolExecutor(8) as ex:
    for d, out in ex.map(one, dirs):
        name = os.path.basename(d.rstrip("/"))
        if not out:
            print(f"{name:12s} silent")
        else:
            print(f"{name:12s} FALSE-ALARM {json.dumps(out)[:900]}")
