"""Second-round prompt for behaviour-preserving refactors: as agent_prompt_neutral.py, with the earlier refactors listed as `already done`
and worktree suffix `q`.  usage: agent_prompt_neutral2.py <ID> [n]"""
import json, os, subprocess, sys
pid = sys.argv[1]
n = sys.argv[2] if len(sys.argv) > 2 else "3"
V = os.path.dirname(os.path.dirname(os.path.abspath(__file__)))
prev = []
for d in sorted(os.listdir(os.path.join(V, "neutral"))):
    if d.startswith(pid + "-r"):
        try:
            m = json.load(open(os.path.join(V, "neutral", d, "meta.json")))
            prev.append(f"({d[-2:]}) {str(m.get('summary', ''))[:260]}")
        except Exception:
            pass
out = subprocess.run([sys.executable, os.path.join(V, "tools", "agent_prompt_neutral.py"), pid, n], capture_output=True, text=True).stdout
out = out.replace(f"/tmp/wt/{pid}n", f"/tmp/wt/{pid}q").replace(f"/tmp/wt_out/{pid}n", f"/tmp/wt_out/{pid}q")
extra = ("\nEARLIER ROUND: the following refactors were already produced for this property; yours must be DIFFERENT in kind and, where possible, touch "
         "other anchored functions or restructure them more deeply (different algorithmic formulation with identical results, numpy idiom instead of loops "
         "or the reverse, state kept in differently named / differently shaped temporaries, helpers with parameters, early returns):\n  "
         + "\n  ".join(prev) + "\n")
print(out.replace("DELIVERABLES", extra + "\nDELIVERABLES", 1))
