"""Runs every quick and thorough command of MANIFEST.json on /repo's current tree (16 at a time), prints exit codes and validates the manifest and
every evidence file against the schemas in /root/.vp (validation needs jsonschema: run with python3-vt).  usage: python3-vt tools/run_all_checks.py [quick|thorough|both]"""
import concurrent.futures as cf
import json
import subprocess
import sys

which = sys.argv[1] if len(sys.argv) > 1 else "both"
M = json.load(open("/verif/MANIFEST.json"))
jobs = []
for c in M["checks"]:
    if which in ("quick", "both"):
        jobs.append((c["property_id"], "quick", c["quick_cmd"]))
for c in M["checks"]:
    if which in ("thorough", "both"):
        jobs.append((c["property_id"], "thorough", c["thorough_cmd"]))


def run(job):
    pid, tier, cmd = job
    p = subprocess.run(cmd, shell=True, cwd="/verif", capture_output=True, text=True)
    bad = [l for l in p.stdout.splitlines() if l.startswith(("VIOLATION", "ANALYSIS-ERROR", "SELFTEST-NOTE"))]
    return pid, tier, p.returncode, (p.stdout.strip().splitlines() or [""])[-1][:150], bad


# quick first, then thorough (the thorough run writes the evidence last)
fails = 0
for tier in ("quick", "thorough"):
    sel = [j for j in jobs if j[1] == tier]
    with cf.ThreadPoolExecutor(max_workers=8) as ex:
        for pid, t, rc, last, bad in ex.map(run, sel):
            print(f"{pid} {t:8s} exit={rc} {last}")
            if rc != 0 or bad:
                fails += 1
try:
    import jsonschema
    jsonschema.validate(M, json.load(open("/root/.vp/MANIFEST.schema.json")))
    es = json.load(open("/root/.vp/EVIDENCE.schema.json"))
    for c in M["checks"]:
        jsonschema.validate(json.load(open(c["evidence_file"])), es)
    print("schemas: manifest and", len(M["checks"]), "evidence files valid")
except ImportError:
    print("schemas: jsonschema not available under this interpreter (use python3-vt)")
print("FAILS:", fails)
sys.exit(1 if fails else 0)
