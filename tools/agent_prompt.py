"""Prints the prompt given to a mutation sub-agent for one property (only the property's text + its worktree)."""
import json, sys
pid = sys.argv[1]
n = sys.argv[2] if len(sys.argv) > 2 else "2"
sfx = sys.argv[3] if len(sys.argv) > 3 else ""
avoid = sys.argv[4] if len(sys.argv) > 4 else ""
wt = pid + sfx
rec = None
for l in open('/verif/properties.jsonl'):
    r = json.loads(l)
    if r['id'] == pid:
        rec = r
print(f"""You are helping to test how well a verification effort can detect subtle regressions in the Python package
wannier-berri (Wannier interpolation code). You have your own scratch git worktree of the repository at
/tmp/wt/{wt} (a checkout of the current HEAD). Work ONLY inside /tmp/wt/{wt} and /tmp/wt_out/{wt}. Do not read or
touch /repo, /verif or /root/.vp. The interpreter is /venv/bin/python (run things from /tmp/wt/{wt} so that
`import wannierberri` resolves to the worktree; check with
`cd /tmp/wt/{wt} && /venv/bin/python -c "import wannierberri; print(wannierberri.__file__)"`). There is no network.

Here is a semantic property that wannier-berri is supposed to satisfy (JSON record):

{json.dumps(rec, indent=1)}

TASK: produce {n} DIFFERENT, independent, realistic source changes to the package (files under wannierberri/ only, never tests)
such that each change, applied alone to the clean worktree:
  1. still imports/compiles,
  2. still passes the existing test-suite — at minimum the test files that exercise the touched code must pass
     (run them: e.g. `cd /tmp/wt/{wt} && /venv/bin/python -m pytest -q -p no:cacheprovider -x tests/test_XXX.py`; the full suite
     takes ~40 minutes serially, so choose relevant files, but be honest: state exactly which tests you ran; tests known to fail
     on the clean tree are test_vaspspn, test_sitesym_Fe*, *Mn3Sn*, test_create_w90files_Fe_222[False-False] — ignore those),
  3. BREAKS the property above (violates its statement for some input / schedule / history),
  4. is the kind of bug a developer could plausibly introduce (a refactor slip, a wrong index/sign/axis/variable, a dropped
     update, a mis-ordered statement, an off-by-one, a wrong default) — not sabotage that any ordinary use would expose at once.
     Prefer changes that need something SPECIFIC to manifest: an unusual input (odd size, degenerate values, non-default option),
     a particular interleaving / completion order, a multi-step sequence of operations, a crash/restart at a particular point,
     or two cooperating edits at different sites that each look fine alone.
{("Earlier rounds already produced the following changes; yours must use DIFFERENT mechanisms and, where possible, different functions/files among the anchors: " + avoid + chr(10)) if avoid else ""}For each change also write a small stand-alone demonstration program (plain python script, exit code 0 = property holds,
non-zero = property violated, printing what it observed) that FAILS with the change applied and PASSES on the clean worktree.
The demonstration must exercise the real package code (import wannierberri from the worktree), run in under ~2 minutes,
need no network, and must not depend on files outside the worktree (it may use tests/data and build small models, e.g. via
wannierberri.models / pythtb / tbmodels, or call the anchored functions directly with synthetic inputs; mocking an external
library such as ray with a small stand-in obeying its documented contract is fine if the schedule matters).

DELIVERABLES — for change k = 1..{n} create the directory /tmp/wt_out/{wt}/m<k>/ containing:
  - patch.diff : output of `git -C /tmp/wt/{wt} diff` with ONLY that change applied (must apply with `git apply` to a clean checkout),
  - demo.py    : the demonstration (run as `cd <worktree> && /venv/bin/python /path/to/demo.py`),
  - meta.json  : {{"property": "{pid}", "summary": "<one line: what was changed>", "needs_to_manifest": "<what specific input/
                  schedule/sequence is needed>", "files_touched": [...], "tests_run": ["<pytest command>: <result line>", ...],
                  "demo_clean": "<exit code + last line on clean tree>", "demo_mutated": "<exit code + last line with the change>"}}
Before finishing: verify each patch applies to a clean tree (`git -C /tmp/wt/{wt} stash` or `git checkout -- wannierberri` then
`git apply`), re-run the demo both ways, and leave the worktree CLEAN (`git -C /tmp/wt/{wt} checkout -- .`; remove files you
created inside it). Do not commit anything. Keep going until the deliverables exist and are verified; then reply with a
short summary (one paragraph per change) — no need to paste the diffs.""")
