"""F7 / C19: .eig/.amn/.mmn written by the file objects must be readable back to equal objects.
Run from a checkout: /venv/bin/python findings/F7_c19_w90_writers.py   (exit 0 = round trip holds)"""
import os, sys, shutil, tempfile
import numpy as np
import wannierberri as wb
from wannierberri.w90files import WannierData, EIG, AMN, MMN

root = os.path.dirname(os.path.dirname(os.path.abspath(wb.__file__)))
seed = os.path.join(root, "tests", "data", "Fe_Wannier90", "Fe")
w = WannierData.from_w90_files(seedname=seed, files=["chk", "eig", "amn", "mmn"])
tmp = tempfile.mkdtemp()
bad = 0
try:
    out = os.path.join(tmp, "Fe")
    for key, reader in (("eig", lambda: EIG.from_w90_file(out)), ("amn", lambda: AMN.from_w90_file(out, npar=2)),
                        ("mmn", lambda: MMN.from_w90_file(out, bkvec=w.get_file("bkvec"), npar=2))):
        try:
            w.write(out, files=[key])
            back = reader()
            # bk_reorder records how the *original* file's b-vector order differed from bkvec's; a file written in
            # bkvec order reads back with the identity permutation, so only the data are compared for mmn
            kw = dict(check_reorder=False) if key == "mmn" else {}
            ok, msg = w.get_file(key).equals(back, tolerance=1e-7, **kw)
            print(f"{key}: round trip {'OK' if ok else 'DIFFERS: ' + msg}")
            bad += (not ok)
        except Exception as e:
            print(f"{key}: {type(e).__name__}: {e}")
            bad += 1
finally:
    shutil.rmtree(tmp)
sys.exit(1 if bad else 0)
