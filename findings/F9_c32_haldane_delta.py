"""F9 / C32: Haldane_ptb and Haldane_tbm built with the same parameters must give the same system (bands)."""
import sys
import numpy as np
import wannierberri as wb
from wannierberri.models import Haldane_ptb, Haldane_tbm
from wannierberri.system.system_tb_py import get_system_pythtb, get_system_tbmodels
bad = 0
for delta in (0.2, 0.7):
    sp = get_system_pythtb(Haldane_ptb(delta=delta))
    st = get_system_tbmodels(Haldane_tbm(delta=delta))
    k = (0.0, 0.0, 0.0)
    ep = wb.evaluate_k(sp, k=k, quantities=["energy"])
    et = wb.evaluate_k(st, k=k, quantities=["energy"])
    d = abs(np.sort(ep) - np.sort(et)).max()
    print(f"delta={delta}: E_ptb={np.round(np.sort(ep), 4)} E_tbm={np.round(np.sort(et), 4)} diff={d:.2e}")
    bad += d > 1e-9
sys.exit(1 if bad else 0)
