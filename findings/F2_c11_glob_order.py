"""F2 / C11: read_factors(iter=-1) must return the LAST iteration whatever order glob lists the files in.
exit 0 = holds, 1 = violated.  Run: /venv/bin/python findings/F2_c11_glob_order.py"""
import glob, os, sys, tempfile, shutil
import numpy as np
import wannierberri.run_grid as rg

d = tempfile.mkdtemp()
try:
    for it in range(3):
        rg.write_factors(d, np.full(4, float(it)), it)
    real = glob.glob
    bad = 0
    for name, order in (("sorted", lambda l: sorted(l)), ("reversed", lambda l: sorted(l)[::-1]),
                        ("rotated", lambda l: sorted(l)[1:] + sorted(l)[:1])):
        rg.glob.glob = lambda p, _o=order: _o(real(p))
        it, fac = rg.read_factors(d, -1)
        print(f"listing {name:9s}: restart picks iteration {it}")
        bad += (it != 2)
    rg.glob.glob = real
    sys.exit(1 if bad else 0)
finally:
    shutil.rmtree(d)
