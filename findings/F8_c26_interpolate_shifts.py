"""F8 / C26: SystemInterpolator.interpolate(alpha=1) must behave as system1 at every k (Berry curvature too)."""
import sys
import numpy as np
import tbmodels
import wannierberri as wb
from wannierberri.system.interpolate import SystemInterpolator


def model(pos, delta):
    t2 = 0.15j
    m = tbmodels.Model(on_site=[-delta, delta], uc=[[1.0, 0.0], [0.5, np.sqrt(3.0) / 2.0]], dim=2, occ=1, pos=pos)
    m.add_hop(-1.0, 0, 1, [0, 0]); m.add_hop(-1.0, 1, 0, [1, 0]); m.add_hop(-1.0, 1, 0, [0, 1])
    for R, o in (([1, 0], 0), ([1, -1], 1), ([0, 1], 1)):
        m.add_hop(t2, o, o, R)
    for R, o in (([1, 0], 1), ([1, -1], 0), ([0, 1], 0)):
        m.add_hop(t2.conjugate(), o, o, R)
    return m


s0 = wb.System_R.from_tbmodels(model([[1 / 3, 1 / 3], [2 / 3, 2 / 3]], 0.2)) if hasattr(wb.System_R, "from_tbmodels") \
    else wb.system.System_TBmodels(model([[1 / 3, 1 / 3], [2 / 3, 2 / 3]], 0.2))
s1 = wb.System_R.from_tbmodels(model([[0.30, 0.36], [0.70, 0.61]], 0.3)) if hasattr(wb.System_R, "from_tbmodels") \
    else wb.system.System_TBmodels(model([[0.30, 0.36], [0.70, 0.61]], 0.3))
ip = SystemInterpolator(s0, s1, use_pointgroup=-1)
bad = 0
for alpha, ref in ((0.0, s0), (1.0, s1)):
    si = ip.interpolate(alpha)
    for k in ((0.12, 0.27, 0.0), (0.41, 0.05, 0.0)):
        a = wb.evaluate_k(si, k=k, quantities=["energy", "berry_curvature"], return_single_as_dict=True)
        b = wb.evaluate_k(ref, k=k, quantities=["energy", "berry_curvature"], return_single_as_dict=True)
        dE, dO = abs(a["energy"] - b["energy"]).max(), abs(a["berry_curvature"] - b["berry_curvature"]).max()
        print(f"alpha={alpha} k={k}: |dE|={dE:.2e} |dOmega|={dO:.2e}")
        bad += (dE > 1e-8) or (dO > 1e-8)
    dshift = abs(si.rvec.shifts_left_red - ref.rvec.shifts_left_red).max()
    print(f"alpha={alpha}: max |shift(interpolated) - shift(endpoint)| = {dshift:.2e}")
    bad += dshift > 1e-10
sys.exit(1 if bad else 0)
