"""F10 (C02): with the FFTW back end an earlier result of FFT_R_to_k.__call__(…, hermitian=False) is overwritten by a later transform
through the same object (the plan adopts the returned grid array as its input buffer).  Before the fix 9037ce76 the first line printed
`fftw r1 changed by the second transform: True 10.08…`; after it `False 0.0`.  The numpy back end is unaffected either way."""
import numpy as np, sys
sys.path.insert(0, "/repo")
from wannierberri.fourier.fft import FFT_R_to_k, PYFFTW_IMPORTED
print("pyfftw", PYFFTW_IMPORTED)
rng = np.random.default_rng(0)
nR, nw = 7, 3
iRvec = rng.integers(-2, 3, size=(nR, 3))
NK = (4, 4, 4)
for lib in ("fftw", "numpy"):
    f = FFT_R_to_k(iRvec, NKFFT=NK, num_wann=nw, fftlib=lib)
    A = rng.normal(size=(nR, nw, nw)) + 1j * rng.normal(size=(nR, nw, nw))
    B = rng.normal(size=(nR, nw, nw, 3)) + 1j * rng.normal(size=(nR, nw, nw, 3))
    r1 = f(A, hermitian=False, antihermitean=False, reshapeKline=False)
    keep = r1.copy()
    r2 = f(B, hermitian=False, antihermitean=False, reshapeKline=False)
    print(lib, "r1 changed by the second transform:", not np.allclose(r1, keep), np.abs(r1 - keep).max())
    r3 = f(A, hermitian=False, antihermitean=False, reshapeKline=False)
    print(lib, "r1 vs recomputed:", np.abs(r1 - r3).max(), " keep vs recomputed:", np.abs(keep - r3).max())
