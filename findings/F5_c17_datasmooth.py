"""F5 / C17: dataSmooth of a result with two energy axes must equal smoothing along axis 0 and then axis 1."""
import sys
import numpy as np
from wannierberri.result import EnergyResult
from wannierberri.smoother import GaussianSmoother
rng = np.random.default_rng(1)
E0, E1 = np.linspace(0, 1, 21), np.linspace(0, 2, 31)
s0, s1 = GaussianSmoother(E0, 0.1), GaussianSmoother(E1, 0.15)
data = rng.normal(size=(21, 31, 3))
res = EnergyResult([E0, E1], data, smoothers=[s0, s1], rank=1)
want = s1(s0(data, axis=0), axis=1)
only0 = s0(data, axis=0)
d_all, d_0 = abs(res.dataSmooth - want).max(), abs(res.dataSmooth - only0).max()
print(f"|dataSmooth - both axes| = {d_all:.3e}   |dataSmooth - axis 0 only| = {d_0:.3e}")
sys.exit(0 if d_all < 1e-12 else 1)
