"""F6 / C18: the Wannier-centre WT file must round-trip for any number of Wannier functions (odd ones too)."""
import os, sys, tempfile, shutil
import numpy as np
from wannierberri.system.system_hr import write_WCC_WT_format, read_WCC_WT_format
d = tempfile.mkdtemp()
bad = 0
try:
    for n in (1, 2, 3, 4, 5, 8):
        wcc = np.arange(3 * n, dtype=float).reshape(n, 3) + 0.25
        seed = os.path.join(d, f"s{n}")
        write_WCC_WT_format(seed, wcc)
        try:
            back = read_WCC_WT_format(seed)
            ok = back.shape == wcc.shape and np.allclose(back, wcc)
            print(f"num_wann={n}: {'OK' if ok else 'DIFFERS'}")
        except Exception as e:
            ok = False
            print(f"num_wann={n}: {type(e).__name__}: {e}")
        bad += not ok
finally:
    shutil.rmtree(d)
sys.exit(1 if bad else 0)
