"""F1 / C04: the documented random_gauge option of Data_K must run and leave gauge-invariant results unchanged."""
import sys
import numpy as np
import wannierberri as wb
from wannierberri.models import Haldane_ptb
from wannierberri.system.system_tb_py import get_system_tb_py
try:
    sys_ = wb.system.System_PythTB(Haldane_ptb())
except Exception:
    sys_ = wb.System_R.from_pythtb(Haldane_ptb()) if hasattr(wb.System_R, "from_pythtb") else None
sys_.double_spin() if hasattr(sys_, "double_spin") else None
k = (0.123, 0.231, 0.0)
bad = 0
try:
    ref = wb.evaluate_k(sys_, k=k, quantities=["energy", "berry_curvature"], return_single_as_dict=True)
    rnd = wb.evaluate_k(sys_, k=k, quantities=["energy", "berry_curvature"], return_single_as_dict=True,
                        parameters_K={"random_gauge": True, "degen_thresh_random_gauge": 1e-4})
    dE = abs(ref["energy"] - rnd["energy"]).max()
    nb = ref["energy"].shape[0]
    # sum Berry curvature over each degenerate pair (gauge invariant)
    pair = lambda x: x.reshape(nb // 2, 2, -1).sum(axis=1) if nb % 2 == 0 else x
    dO = abs(pair(ref["berry_curvature"]) - pair(rnd["berry_curvature"])).max()
    print(f"random_gauge ran: |dE|={dE:.2e}, |d(pair-summed Omega)|={dO:.2e}")
    bad = not (dE < 1e-9 and dO < 1e-7)
except AttributeError as e:
    print("random_gauge=True failed:", type(e).__name__, e)
    bad = 1
sys.exit(1 if bad else 0)
