"""F4 / C15: select_window_degen must never split a multiplet (of any size) whose members are closer than thresh."""
import sys
import numpy as np
from wannierberri.utility import select_window_degen
bad = 0
cases = [
    (np.array([0., 1., 1.001, 1.002, 3.]), dict(win_min=-1, win_max=1.0015), "upper edge inside a triplet"),
    (np.array([0., 1., 1.001, 1.002, 3.]), dict(win_min=1.0005, win_max=5), "lower edge inside a triplet"),
    (np.array([0., 1., 1.001, 1.002, 1.003, 3.]), dict(win_min=-1, win_max=1.0025), "upper edge inside a quadruplet"),
    (np.array([0., 1., 1.001, 3.]), dict(win_min=-1, win_max=1.0005), "upper edge inside a doublet"),
]
for E, kw, what in cases:
    for inc in (False, True):
        ins = select_window_degen(E, thresh=1e-2, include_degen=inc, **kw)
        split = any(ins[i] != ins[i + 1] for i in range(len(E) - 1) if E[i + 1] - E[i] < 1e-2)
        print(f"{what:34s} include_degen={inc!s:5s} -> {ins.astype(int)} {'SPLIT' if split else 'ok'}")
        bad += split
sys.exit(1 if bad else 0)
